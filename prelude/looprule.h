/* Textual instantiation of the Hoare loop rule (see DESIGN §3.2b).  The engine rewrites the condition of a
 * marked loop of the REAL code to `LOOPHEAD_<name> && (cond)`.  A unit defines, for each marked loop,
 *     INV_<name>      the invariant (any C expression over the locals in scope; may call functions)
 *     HAVOC_<name>    statements assigning unconstrained values to everything in the loop's declared frame
 *     VARIANT_<name>  a size_t expression that must decrease
 * and then  #define LOOPHEAD_<name> LOOP_RULE(<name>, seen-flag).
 * First arrival: assert INV (base), havoc the frame, assume INV (an arbitrary iteration).  Second arrival (after one
 * execution of the real body, incl. a for-loop's increment): assert INV (step) and the variant, end the path.
 * Leaving the loop from the arbitrary iteration (condition false, break, return) continues into the real code after
 * the loop, whose postconditions the harness asserts (exit).  Evaluates to 1, so the loop condition is unchanged. */
#ifndef VERIF_LOOPRULE_H
#define VERIF_LOOPRULE_H
#ifdef BOUNDED_LOOPS
/* bounded stand-in (kind B): the loops are unwound (--unwind N --unwinding-assertions), no invariant is used */
#define LOOP_RULE(NAME, seen, var0) 1
#define LOOP_RULE_PC(NAME, seen) 1
#else
#define LOOP_RULE(NAME, seen, var0) ({ \
    if (!(seen)) { (seen) = 1; \
        __CPROVER_assert(INV_##NAME, "LOOP " #NAME ": invariant holds on entry"); \
        HAVOC_##NAME; \
        __CPROVER_assume(INV_##NAME); \
        (var0) = (VARIANT_##NAME); \
    } else { \
        __CPROVER_assert(INV_##NAME, "LOOP " #NAME ": invariant preserved by the loop body"); \
        __CPROVER_assert((VARIANT_##NAME) < (var0), "LOOP " #NAME ": variant decreases (termination)"); \
        __CPROVER_assume(0); \
    } 1; })
/* partial-correctness variant (no termination claim): for lock-free retry loops and wait loops whose termination
 * depends on other threads */
#define LOOP_RULE_PC(NAME, seen) ({ \
    if (!(seen)) { (seen) = 1; \
        __CPROVER_assert(INV_##NAME, "LOOP " #NAME ": invariant holds on entry"); \
        HAVOC_##NAME; \
        __CPROVER_assume(INV_##NAME); \
    } else { \
        __CPROVER_assert(INV_##NAME, "LOOP " #NAME ": invariant preserved by the loop body"); \
        __CPROVER_assume(0); \
    } 1; })
#endif /* BOUNDED_LOOPS */
#endif
