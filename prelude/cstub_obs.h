/* memcpy stub for byte-copy loops: OBSERVING stub.  The unit designates one destination byte address OBS_DST
 * (solver-chosen); memcpy_ checks the whole source/destination ranges and records how often that byte was
 * written (OBS_HITS) and from which source address (OBS_SRC).  Contracts state "the observed byte was written
 * exactly once, from the address of the matching flat source byte"; since the observed byte is arbitrary this
 * holds for every byte.  @TRUSTED: libc memcpy copies src[0..n) to dst[0..n). */
#ifndef VERIF_CSTUB_OBS_H
#define VERIF_CSTUB_OBS_H
/*@TRUSTED memcpy(dst,src,n) copies src[0..n) to dst[0..n) (one solver-chosen destination byte is tracked)@*/
static inline void *memcpy_(void *dst, const void *src, size_t n)
{
    __CPROVER_assert(n == 0 || __CPROVER_w_ok(dst, n), "memcpy: whole destination range is writable");
    __CPROVER_assert(n == 0 || __CPROVER_r_ok(src, n), "memcpy: whole source range is readable");
    if (n != 0 && OBS_DST != NULL && __CPROVER_same_object(dst, OBS_DST) &&
        __CPROVER_POINTER_OFFSET(dst) <= __CPROVER_POINTER_OFFSET(OBS_DST) &&
        (size_t)(__CPROVER_POINTER_OFFSET(OBS_DST) - __CPROVER_POINTER_OFFSET(dst)) < n) {
        OBS_HITS++;
        OBS_SRC = (const char *)src + (__CPROVER_POINTER_OFFSET(OBS_DST) - __CPROVER_POINTER_OFFSET(dst));
    }
    return dst;
}
#endif
