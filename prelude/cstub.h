/* Trusted libc stubs (assumed behaviour of libc), shared by the units.
 *
 * memcpy_ is a LOGGING stub: it checks that the whole source/destination ranges are readable /
 * writable and records (dst, src, n) in a ghost log; it does not move bytes (a symbolic-length byte
 * copy into a 4 KiB buffer exhausts every back end here).  Contracts of callers are stated over the
 * log ("exactly these copies, to these destinations"); what the destination then contains follows
 * from the meaning of memcpy.  @TRUSTED: libc memcpy copies src[0..n) to dst[0..n). */
#ifndef VERIF_CSTUB_H
#define VERIF_CSTUB_H
#include <stddef.h>
#define MC_MAX 4
size_t MC_CNT;
const char *MC_DST[MC_MAX];
const char *MC_SRC[MC_MAX];
size_t MC_N[MC_MAX];
/*@TRUSTED memcpy(dst,src,n) copies src[0..n) to dst[0..n) (calls are logged; bytes are not moved)@*/
static inline void *memcpy_(void *dst, const void *src, size_t n)
{
    __CPROVER_assert(n == 0 || __CPROVER_w_ok(dst, n), "memcpy: whole destination range is writable");
    __CPROVER_assert(n == 0 || __CPROVER_r_ok(src, n), "memcpy: whole source range is readable");
    __CPROVER_assert(MC_CNT < MC_MAX, "memcpy: ghost log capacity");
    if (MC_CNT < MC_MAX) { MC_DST[MC_CNT] = (const char *)dst; MC_SRC[MC_CNT] = (const char *)src; MC_N[MC_CNT] = n; MC_CNT++; }
    return dst;
}
#endif
