TRUST = ('Trusted base: cbmc 6.11 (C front end, goto-instrument --dfcc, SAT/SMT back ends); the mechanical C++->C lowering '
         'rules in specs/<id>/spec.py (regex rules re-applied to /repo on every run; text no rule matches passes through verbatim and must compile as C; '
         'cross-checked by native runs of the real C++); library stubs with assumed contracts listed in evidence.assumptions.')
CLAIMED = {
    'C20': dict(
        text='Proof: Path::iterator::set (two loop contracts), Path::level_valid (loop contract with ghost lexical depth, '
             'set replaced by its contract) and SubFileSystem::PathCat (level_valid/strlen replaced by contracts, memcpy as a '
             'logging stub) are lowered from /repo on every run and verified with goto-instrument --dfcc for every '
             'NUL-terminated string shorter than PATH_MAX: level_valid(p) is true exactly when no prefix of the component '
             'sequence has negative depth and all components were visited; PathCat forwards base++p only for such p and accepts '
             'every such p that fits; SubFileSystem::init (loop-free, every base text up to 8191 characters) records a configured base as its text, \'/\'-terminated, with a length in 1..PATH_MAX-1 (PathCat\'s precondition), accepts only what the underlay reports as a directory, and records no base only when none is configured.  Bounded CBMC (length <= 7) and a native exhaustive run (length <= 9/13) on the real '
             'level_valid and on the real init() + PathCat for eight bases (absolute, relative, ".", "/"; each path also with the base text in front) with an independent resolver supply counterexamples.  One generated proof per path-taking operation of '
             'SubFileSystem (32, read from subfs.cpp on every run): every path argument passes through a PathCat of this sub-filesystem '
             'and the underlay receives the PathCat result, never the caller\'s pointer.',
        note=TRUST + ' strlen/memcpy are libc stubs; std::string_view == modelled for the empty end() view only; symlink\'s oldname (link content) '
             'is exempt by design; directory iteration is not under contract.',
        technique='deductive verification: CBMC function + loop contracts (goto-instrument --dfcc) on mechanically lowered real code; '
                  'bounded CBMC + native replay for counterexamples',
        design='§6 C20'),
}
CLAIMED['C14'] = dict(
    text='Proof (for any number of elements up to 1024 and any lengths, zero-length elements anywhere): iovector_view::sum, shrink_to, '
         'do_extract_front with its three callbacks (discard / copy out / sub-vector), do_extract_back (discard; thorough tier), '
         'extract_front_continuous, extract_back_continuous and the iov_iterator constructor (0-element views incl. {nullptr, 0}) are lowered from /repo on every run; each loop of the real code is '
         'verified by the Hoare loop rule (invariant over ghost prefix sums + ghost element index, instantiated textually on the '
         'real loop) and the postconditions pin the whole resulting view to the remaining flat range, the return value to '
         'min(request,total), copied bytes to the matching flat positions (observing memcpy stub) and all accesses to the '
         'elements\' extents.  slice (both loops by the loop rule on cadical; at most 16 source elements and output slots - an input-size bound): the source is unchanged, the output starts at flat position offset inside the element containing it, holds min(count, total - offset) bytes unless the output array is full, middle elements are copied verbatim.  Bounded stand-ins (not proofs): slice for at most 2 (thorough: 3) source elements and output slots, '
         'extract_back(buf) for at most 2 elements (thorough).  do_extract_back with the copy-out callback (extract_back(bytes, buf)) by the loop rule on cadical for at most 16 elements.  _copy_pipe_iov / memcpy_iov (both iterators, the real loop by the Hoare loop rule on cadical): returns min(size, destination total, source total), every destination flat byte below it is written exactly once from the source byte at the same flat position, all ranges inside the current elements, terminates - for vectors of at most 16 + 16 (thorough: 64 + 64) elements of any lengths incl. 0-element views (an input-size bound, not an unwinding bound; a bounded unwinding for 2 + 2 elements is in the thorough tier).  do_extract_back with the sub-vector callback (extract_back(bytes, iov): the output is the tail of the caller\'s array and denotes exactly the last ret flat bytes, first element = the tail of the boundary element; -1 only if the range does not fit) for at most 16 elements.  pipe_iov (the src_extractor instantiation of the same _copy_pipe_iov text, consuming the source view in place; ghost consumed-offset): same postconditions plus the source view denotes exactly the source bytes from flat position ret on, elements behind the boundary unchanged - for at most 16 + 16 elements.  The owning iovector\'s wrappers shrink_to / extract_front(bytes[, buf]) / extract_back(bytes[, buf]) (one generated loop-free proof each, the view operation replaced by the shape clause of its proved contract): exactly one view operation on the current window, its result returned, and afterwards [iov_begin, iov_end) is exactly the view the operation left.  extract_front_continuous / extract_back_continuous of the owning vector (generated loop-free proofs; view operation, sum, allocator and the nested wrapper as contract stubs): in place when possible, else by copying exactly the requested bytes into a fresh buffer; NULL exactly for a request larger than the content or without memory, and then nothing is allocated or consumed.  truncate(size) (loop-free, sum / shrink_to / push_back as stubs): a size within the content keeps exactly the first size bytes and appends nothing, a larger one asks for exactly the missing bytes.  The element-level operations push_back(iovec), push_front(iovec), pop_front(), pop_back() and empty() (loop-free, every window inside every capacity up to 64, a ghost slot index for the frame): the window grows / shrinks by exactly that one element at that end, every other slot is unchanged, a full / empty vector refuses with 0 and changes nothing.  The other owning wrappers (sub-vector outputs with allocation, allocating push / pipe) are '
         'covered only by the native differential run of the real code against a flat-string oracle (17 operations), not proved.',
    note=TRUST + ' memcpy is a stub that checks ranges and tracks one solver-chosen byte; element buffers are abstract addresses '
         '(their memory is not modelled); prefix-sum monotonicity is a separately proved lemma; total length <= 2^62.',
    technique='deductive verification: Hoare loop rule instantiated on the real loops (cbmc with cvc5 for the 1024-element proofs, cadical for the 16 / 64-element ones), ghost prefix sums and ghost indices, generated loop-free proofs for the owning wrappers; '
              'native differential replay for counterexamples',
    design='§6 C14')
CLAIMED['C16'] = dict(
    text='Proof: AlignedFileAdaptor::pread and ::pwrite (with the real range_split_power2) are lowered from /repo on every run and '
         'verified loop-free over all offsets/counts (count <= 2^32), all power-of-two alignments up to 1 MiB, both memory-alignment '
         'modes and all file sizes: every request reaching the underlying file has aligned offset, length and (when requested) '
         'memory; results equal those of a plain file (byte counts, resulting size, and - by provenance tracking of one '
         'solver-chosen cell - the position every byte lands at, including zero fill and write-back of untouched bytes).  '
         'FixedSizeLinearFile::pio and VariableSizeLinearFile::pio are verified with the Hoare loop rule on the real loop over '
         'all_parts() against the abstract range split of C15: every sub-request goes to the sub-file holding the logical '
         'position, at the right offset, inside the sub-file and the caller buffer; the return value is clipped to the composite size.  A native '
         'differential layer runs random in-scope request sequences on the real aligned adaptor (scalar and vectored, random iovec segmentation) '
         'and on fixed / variable / striped composites over in-memory files against a plain-file oracle, checking alignment of every forwarded request.',
    note=TRUST + ' The underlying files are healthy plain files (no errors, no short transfers except the modelled failure flag in pio); '
         'StripeFile::pio, the vectored (preadv2_mutable/pwritev2_mutable) paths and multi-operation sequences are not under contract (native layer only); '
         'IOAlloc returns aligned memory when align_memory is set (assumed).',
    technique='deductive verification: loop-free full-domain harnesses and Hoare loop rule (cbmc + cadical) on mechanically lowered real code, '
              'underlay stubs whose preconditions are the alignment clause, ghost provenance tracking',
    design='§6 C16')
CLAIMED['C04'] = dict(
    text='Proof (loop-free, all 64-bit inputs): sat_add/sat_sub, Timeout (constructor, timeout(x), timeout(), expired(), timeout_at_most), '
         'thread::set_error_number (an interrupt reason is returned as -1/errno exactly once and cleared, so it cannot end a later sleep), '
         'waitq_translate_errno, do_shutdown_usleep(_defer) (deadline capped at now+10ms, -1 with EPERM unless interrupted) are lowered from '
         '/repo on every run and verified against their statements; so are thread_yield (consumes the reason it reports), thread_interrupt '
         '(a sleeper is woken exactly once with the interrupter\'s reason; a reason already parked for a woken thread is never replaced), '
         'prelocked_thread_interrupt (same-vCPU: out of its heap, READY, run queue; cross-vCPU: STANDBY in the owner\'s standby list), '
         'prepare_usleep (deadline unchanged, pushed once under thread.lock, queue/thread locks balanced), the wake-up pass '
         'resume_threads_inlined (Hoare loop rule on both real loops over an abstract heap with one tracked sleeper: EVERY sleeper whose '
         'deadline has passed is READY in the run queue after the pass, later deadlines stay asleep, nobody is resumed twice) and the '
         'idler\'s engine-wait computation (never past any sleeper\'s deadline, capped), and the entry points thread_usleep / thread_usleep_defer / '
         'do_thread_usleep(_defer) / yield_as_sleep (a thread marked by thread_shutdown() only ever takes the capped sleep; the wake-up reason is '
         'consumed exactly once).  Bounded: SleepQueue push / pop_front / pop (incl. removal from the '
         'middle, absent thread) preserve the heap representation invariant and the set of sleepers and pop_front returns an earliest deadline, '
         'for every heap of at most 6 (quick) / 14 (thorough) sleepers with arbitrary 64-bit deadlines.  Native, on the real scheduler: one pass of resume_threads() leaves no expired sleeper among 300; '
         'thread_usleep / thread_usleep_defer of a thread marked by thread_shutdown() return within the bound; interrupt reasons are reported once.',
    note=TRUST + ' The heap result is bounded, not a proof; the resume pass uses the heap-order property of front() as an assumed contract '
         '(its bounded check is the sleepq obligations). Not decided by contracts: that scheduling rounds happen (idle loop / run-queue '
         'rotation as a whole), the standby hand-off across vCPUs as a history, the context switch (assembly), thread_usleep_defer.  std::vector is a fixed-capacity array model; '
         'thread pointers are represented as pool indices.',
    technique='deductive verification: loop-free full-domain CBMC harnesses + Hoare loop rule on mechanically lowered real code; bounded CBMC for the heap; native replay on the real scheduler',
    design='§6 C04')
CLAIMED['C18'] = dict(
    text='Proof (all 64-bit offsets/lengths incl. saturating ends, any number of held ranges): range_t::end/operator</contains, '
         'try_lock_wait, try_lock_wait2, adjust_range, next_offset, prev_end are lowered from /repo on every run.  Order lemmas: for '
         'non-empty denotations exactly one of a<b, b<a, overlap holds, < is irreflexive and transitive.  Critical sections (they run '
         'under m_lock, hence sequentially): a granted range overlaps no held range and keeps the set ordered; a request overlapping a held '
         'range is never granted and waits once; adjust_range succeeds only if the new range overlaps no other holder and keeps the order, '
         'and changes nothing when refused; unlock(offset,length) (Hoare loop rule on the erase loop) releases every held range inside the given '
         'range and no other, unlock(handle) exactly that range; ~Range() (run by the erase) wakes EVERY thread waiting on the released range.  A native campaign runs random single-vCPU histories on the real RangeLock against a shadow '
         'list.  KNOWN FINDING (known_findings.txt): requests that denote no byte (length 0, offset 2^64-1) are inserted although the ordering predicate is '
         'not irreflexive for them.',
    note=TRUST + ' std::set is modelled as a sorted array with assumed lower_bound/emplace_hint/erase contracts; the set invariant is used at '
         'ghost-index instances.  Not decided: a waiter is woken when the conflicting range is unlocked and eventually acquires (condition '
         'variable + scheduler as a history); held empty ranges.',
    technique='deductive verification: loop-free full-domain CBMC harnesses (ghost-index set invariant) on mechanically lowered real code',
    design='§6 C18')
CLAIMED['C12'] = dict(
    text='Proof (loop-free, all inputs) of the per-field kernel the (de)serializers bottom out in, lowered from /repo/rpc/serialize.h on '
         'every run: slice::anchor with arbitrary wire-supplied offset/length yields a string inside the base buffer or an empty one; '
         'string::sv and array::size/begin/end stay inside the field for every length including 0; DeserializerIOV::process_field(buffer&) '
         'claims exactly the next n supplied bytes or fails cleanly (null, length 0, nothing consumed), and consumes nothing for an empty field; '
         'an array of fields never iterates elements of a field that could not be claimed; '
         'SerializerIOV::process_field(buffer&) appends a non-empty field exactly once and never overruns a full vector; '
         'CheckedMessage::validate_checksum accepts exactly when the received checksum equals the hash of the received bytes.  A native '
         'run drives the real DeserializerIOV/SerializerIOV with hostile descriptors and arrays (input fragmented at every position), honest '
         'fragmented round trips and single-byte corruption of checked messages.  KNOWN FINDING (known_findings.txt): CheckedMessage\'s CRC '
         'does not cover the variable-length field bytes.',
    note=TRUST + ' Not decided: the template traversal over message shapes (reduce/process_fields/FilterAlignedFields, nested messages, '
         'sorted_map iteration), the whole-message round trip (induction over fields, not machine-checked), process_field(iovec_array&), '
         'CRC collisions.  iovector::extract_front_continuous is an assumed contract (its view-level core is proved in C14).',
    technique='deductive verification: loop-free full-domain CBMC harnesses on mechanically lowered real code; native replay on the real classes',
    design='§6 C12')
CLAIMED['C13'] = dict(
    text='Proof of the framing kernel, lowered from /repo on every run: Parser::skip_chars / skip_spaces (Hoare loop rule) and '
         'extract_until_char keep the cursor inside the text and return (offset,length) inside it; HeadersBase::kv_add never writes '
         'below the header text; HeadersBase::parse (loop rule on the real loop, callee contracts) reads only inside the text '
         '(Parser::operator[] precondition), stores only (offset,length) pairs inside the text, terminates (variant: free index slots) '
         'and returns 0/-1; BodyReadStream::read delivers first the buffered bytes then the stream, never more than '
         'min(request, Content-Length remaining) and keeps the remaining-length accounting exact; Message::body_size (loop-free, header index as a stub) takes the body length from Content-Length whenever that header is present (0 included, whatever the connection options), else from Content-Range, else close-delimited only for a closing non-chunked message; HeadersBase::parse stores for every header a value that starts on the line of its name (only SP / HTAB after the colon), using skip_chars / skip_spaces contracts that state which bytes may be skipped.  A native run checks on the real '
         'Headers parser that the parse of a text never depends on bytes outside it, and a second native campaign (frag) parses the same '
         'response bytes with the real Response class under every two-way split and random multi-way splits (content-length, chunked, '
         'keep-alive back-to-back): status, headers, body, end-of-body and the position of the next message must not depend on the split.',
    note=TRUST + ' Not decided by contract (native campaign only): header-terminator search across fragments (Message::append_bytes), chunked '
         'transfer coding reader; not decided at all: start-line/URL parsing and header lookup (estring_view, std::sort), body writers.',
    technique='deductive verification: Hoare loop rule + loop-free full-domain CBMC harnesses on mechanically lowered real code; native replay',
    design='§6 C13')
CLAIMED['C02'] = dict(
    category='proof',
    text='Kernel only (the property quantifies over schedules; contracts decide the sequential functions and atomic steps it rests on): '
         'semaphore::try_subtract (CAS retry loop, Hoare loop rule under an interference model), semaphore::signal and '
         'semaphore::wait_interruptible (DEFER/SCOPED_LOCK lowered mechanically; the sleep is a stub) are lowered from /repo on every run. '
         'Proved for all counts: try_subtract returns true exactly when this call took `count` tokens once and false only after observing '
         'fewer than `count`; signal adds exactly `count` once and then resumes with the new value under the lock; wait returns 0 only after '
         'taking exactly `count`, a failed wait takes nothing, restores errno, clears the published demand, releases the lock on every path, '
         'queues the waiter while still holding the lock, in in-order mode passes on the tokens it was blocking when it fails, and also when '
         'it was resumed but must sleep again because a non-queued wait() took the tokens.  try_resume (Hoare loop rule over an abstract wait '
         'queue): the in-order pass stops only at an empty queue or at a head whose demand exceeds what is left, wakes only covered demands '
         'with reason -1 under thread.lock (and thread_interrupt never replaces that parked reason; prepare_usleep queues the waiter under both locks: C04 kernels re-run here).  A single-step lemma shows these transitions preserve count == initial + signalled - taken.  A native '
         'campaign runs random single-vCPU histories on the real semaphore.  KNOWN FINDING (known_findings.txt): the out-of-order resume scan '
         'self-deadlocks on the wait-queue lock.',
    note=TRUST + ' NOT decided: no-lost-wake-up across vCPUs as a liveness property, safe destruction after wait returns, '
         'cross-thread timing; atomics are modelled sequentially consistent; other threads are assumed to write the count only while holding '
         'splock (closed world over signal/wait_interruptible); "invariant preserved by every atomic step => holds in every interleaving" is a '
         'paper argument.',
    technique='deductive verification: step contracts under an interference (rely) model + invariant-preservation lemma, CBMC on mechanically lowered real code',
    design='§6 C02, §3.4')
CLAIMED['C06'] = dict(
    text='Kernel only (the property quantifies over schedules): rwlock::lock / unlock (sequential under its mutex; do-while wait loop and the '
         'reader-run wake loop by the Hoare loop rule; inline asm rotate replaced by an equivalent) and qrwlock __trylock / __trylock_shared '
         '(CAS loop under an interference model) / __unlock_unique / __unlock_shared / unlock / do_lock are lowered from /repo on every run.  '
         'Proved: the rwlock state word is updated exactly once per successful lock and only where the conflict test is false (readers: no '
         'writer; writer: nobody), a failed lock never touches it and restores the thread mark, a newcomer waits behind queued waiters, unlock '
         'moves the state one step toward 0 and admits one writer or the whole run of readers at the head only when it reaches 0; every qrwlock '
         'write is one of the four allowed transitions, try-lock results tell the truth about the transition made (failure only on an observed '
         'reason), lock() returns 0 only after a successful try and -1 without any transition, unlock of an unlocked lock is -1/ENOLCK; '
         'when an unlock makes the qrwlock free, a queued writer (exactly one) or, with no writer queued, ALL queued readers are resumed '
         '(try_wake lowered, notifications under the spinlock); both instantiations of do_lock, and lock(mode) pairs the exclusive try with cv_unique '
         'and the shared try with cv_shared.  '
         'Lemma: the allowed transitions preserve writers-exclusive / readers-shared.  A native campaign runs random single-vCPU histories on the real '
         'rwlock and qrwlock (exclusion, failed locks leave no trace, nobody left blocked).',
    note=TRUST + ' NOT decided: admission after the last unlock as a liveness property, timeouts racing with admission across context '
         'switches, memory ordering (sequentially consistent model), the shared instantiation of do_lock; the rely (other threads perform only '
         'allowed transitions) is justified by the same step contracts for every writer (closed world); invariant-per-step => all interleavings '
         'is a paper argument.',
    technique='deductive verification: step contracts under an interference (rely) model + Hoare loop rule + invariant-preservation lemma, CBMC on mechanically lowered real code',
    design='§6 C06, §3.4')
CLAIMED['C07'] = dict(
    text='Kernel only (the property quantifies over interleavings): LockfreeRingQueueBase constructor arithmetic, idx/turn/check_full/'
         'check_empty and the three mark functions, and LockfreeMPMCRingQueue::push / pop / send / recv are lowered from /repo on every run.  Lemmas over all '
         '64-bit values (requested capacity <= 2^62): capacity is the smallest power of two >= max(c,2), idx stays inside the ring, check_full '
         'holds exactly with `capacity` elements in flight, one lap later is the same slot in the next turn, the per-slot mark protocol '
         'free -> written -> read == free-for-next-lap, two positions sharing a slot differ in turn.  Step contracts (Hoare loop rule on the '
         'retry loops, under an interference model): push/pop write or read data only in the slot whose position this call claimed by winning '
         'the CAS on tail/head (which advances by exactly one), publish exactly once with the mark of the claimed position, and a refused '
         'call claims and writes nothing; the blocking send / recv claim one position unconditionally, touch the slot only after its mark showed their turn, and recv copies the element out BEFORE it releases the slot.  LockfreeBatchMPMCRingQueue::push_batch / pop_batch: the claimed range is non-empty, never laps '
         'unread / unpublished elements for ANY counter values incl. 64-bit wrap-around (tail-head <= capacity kept as a guarantee), element J '
         'of the batch lives in the slot of position claim+J, publication / completion happens once, in claim order, after the copy.  '
         'LockfreeSPSCRingQueue push / pop / produce_push_batch(_fully) / consume_pop_batch: refusal only on an observed full / empty ring, '
         'data in the slot of the current position, the own counter moves forward by the accepted count after the data, never past the other side.  '
         'RingChannel / FlexRingChannel recv and send, SendBackoff::push_backoff / notify_senders (the Dekker-style handshake as step contracts): a '
         'consumer parks on the semaphore only while registered in `idler` and after a pop that failed since it registered / last woke, mirrors '
         'taken tokens on `pending`, unregisters on every path; a producer leaves without signalling only if it saw no idle consumer or as many '
         'tokens in flight as the latest idler count it read, and signals at most once after reserving the token.  A native program drives the real '
         'SPSC / batch-MPMC / MPMC queues from one thread against a deque model with the counters started at 0 and just below 2^64.',
    note=TRUST + ' NOT decided: FIFO per producer and exactly-once delivery as whole-history properties, termination of the send/recv pause loops, the '
         'end-to-end liveness of the RingChannel notification (it needs the fence/seq_cst ordering and the scheduler: memory-model and schedule facts); sequentially consistent atomics; rely: tail/head only '
         'grow and a slot is written by another thread only between its own claim and publication.',
    technique='deductive verification: bit-vector lemmas + step contracts under an interference (rely) model, CBMC on mechanically lowered real code',
    design='§6 C07, §3.4')
CLAIMED['C01'] = dict(
    text='Kernel only (the property quantifies over interleavings): mutex::try_lock, mutex::lock (retry loop and the `again` back-edge by '
         'the Hoare loop rule, yield/sleep as stubs, under an interference model of the owner word), do_mutex_unlock, mutex::unlock, '
         'recursive_mutex::lock/try_lock/unlock, spinlock::lock/try_lock/unlock and ticket_spinlock::lock/unlock are lowered from /repo on '
         'every run.  Proved: try_lock returns 0 exactly when this call changed owner null -> CURRENT; lock returns 0 only when the caller is '
         'the owner at return, a failed lock never acquired through its own CAS, splock is released on every path and the waiter is queued '
         'while holding it; unlock by a non-owner changes nothing, otherwise the owner word is handed to the head waiter (null if none / '
         'contending) BEFORE exactly that waiter is woken; the recursive depth arithmetic releases the mutex exactly at depth 0; spinlock '
         'lock/try_lock succeed exactly when this call flipped the flag false -> true; ticket lock returns only when its own ticket is served '
         'and unlock advances serv by one; qspinlock (MCS): try_lock takes the lock only from the free state, lock enqueues its holder once, '
         'clears its own flag before linking behind the predecessor (and only then) and returns only after observing the hand-over, unlock does exactly one of '
         'handing the lock to its linked successor or resetting the tail when nobody is queued.  The hand-off relies on the scheduler kernels proved '
         'under C04 and re-run here: thread_interrupt never replaces the reason parked for a woken waiter, prelocked_thread_interrupt wakes the '
         'locked head exactly once.  A native campaign runs random single-vCPU histories (lock / timed lock / try_lock / interrupt / unlock) on the real '
         'mutex (3 modes) and recursive_mutex: one owner, failed locks hold nothing, nobody left blocked.',
    note=TRUST + ' NOT decided: mutual exclusion across sleeping waiters as a whole-history property, timeouts/interrupts racing with the '
         'hand-off (the -1 paths may coincide with a hand-off), standby-queue wake-ups; sequentially consistent atomics; the rely on '
         'other threads is justified by the same contracts (closed world); invariant-per-step => all interleavings is a paper argument.',
    technique='deductive verification: step contracts under an interference (rely) model + Hoare loop rule, CBMC on mechanically lowered real code',
    design='§6 C01, §3.4')
CLAIMED['C03'] = dict(
    text='Kernel only: cvar_do_wait (re-lock retry loop by the Hoare loop rule; sleep and lock as stubs) and waitq::resume_one / resume_all '
         '(loop rule with a termination variant) are lowered from /repo on every run.  Proved: wait releases the caller\'s lock exactly once as '
         'part of going to sleep and ALWAYS returns with the lock held again (it retries until lock() succeeds); it returns 0 when woken with '
         'the notification reason, -1/ETIMEDOUT when the sleep ran to its deadline, and -1 with the sleeper\'s errno (not the re-lock\'s) '
         'otherwise; wait without a lock is refused.  notify_one wakes exactly one queued waiter (none only if there was none) and notify_all '
         'wakes every queued waiter and reports their number.  (prepare_usleep, which queues the waiter under the queue lock and thread.lock, '
         'is proved under C04.)  A native campaign runs random single-vCPU histories of wait / notify_one / notify_all / interrupt (also with the '
         'notifier holding the mutex while deadlines pass) on the real condition_variable: returns with the lock, notifications neither lost nor invented.',
    note=TRUST + ' NOT decided: atomic release-and-wait (it is the deferred unlock executed on the next thread\'s stack: assembly + scheduler), '
         '"wakes exactly one thread that was waiting at that moment" across vCPUs, timeouts racing with notifications.',
    technique='deductive verification: Hoare loop rule + stubs with stated contracts, CBMC on mechanically lowered real code',
    design='§6 C03')
CLAIMED['C10'] = dict(
    text='Kernel only: doio_once (EINTR/EAGAIN retry loop), doio_loop with BufStep (do-while loop, Hoare loop rule with a termination '
         'variant), EventEngineEPoll::add_interest and rm_interest are lowered from /repo on every run.  Proved for all byte counts / I/O '
         'results: doio_once returns the result of the last I/O attempt, always retries EINTR and gives up on EAGAIN only when the wait '
         'reported timeout/interrupt; read/write (doio_loop+BufStep) continue each transfer exactly where the previous one stopped, return '
         '-1 on error, otherwise exactly the bytes transferred, the full count unless EOF was seen, never ask for 0 bytes after the first '
         'transfer, and terminate; add_interest/rm_interest keep the registered set equal to the union / difference, never change the other '
         'direction\'s waiter, refuse to take over a direction registered for other data, arm exactly the union in the kernel, and change '
         'nothing when refused or failed; rm_interest re-arms exactly the directions that stay registered (the other waiter on the fd is not left '
         'disarmed) and deletes an fd with nothing left.  wait_for_fd: one one-shot interest with the caller as data, one sleep, 0 exactly when '
         'woken by the event loop, otherwise its own interest is removed and errno is ETIMEDOUT / the interrupter\'s.  The dispatch loop '
         'wait_for_events(timeout, datacb, fdcb) (Hoare loop rule): a waiter is fired at most once per event, only for a direction the kernel '
         'reported AND that is still registered, with that direction\'s data; fired one-shot directions - exactly those - are disarmed.  '
         'KernelSocketStream::read/write/readv/writev: all partial transfers of one call share one deadline = entry time + stream timeout.  '
         'BufStepV (vectored step): consumes exactly the transferred bytes, drops only empty elements, and continues only with a non-empty first element.  '
         'A native program moves random byte strings through real Unix-domain socket streams over the epoll engine (one vCPU): exactly-once ordered '
         'delivery for random call segmentations, the whole-call stream timeout, both directions of one descriptor.',
    note=TRUST + ' NOT decided: exactly-once ordered bytes end to end (kernel sockets), engine/scheduler interplay as a history, '
         'do_epoll_wait\'s retry loop, epoll-ng / io_uring engines.',
    technique='deductive verification: Hoare loop rule + loop-free full-domain CBMC harnesses on mechanically lowered real code, system calls as stubs',
    design='§6 C10')
NA = {
    'C05': 'Every clause is about what the scheduler does across context switches, migration and work stealing (assembly stubs, an asymmetric '
           'run-queue lock whose correctness is a memory-ordering argument, stack hand-over on the next thread\'s stack). No sequential function\'s '
           'pre/postcondition states "runs exactly once / on one vCPU at a time / joined exactly once", and CBMC has no model of the context switch; '
           'the sequential scheduler kernels that contracts can reach (sleep / wake-up / interrupt) are claimed under C04. See DESIGN.md section 7.',
    'C08': 'A liveness / exactly-once property of a dispatcher thread handing stack-allocated task records to new or pooled threads, and of pool '
           'destruction racing with the last tasks: whole-history facts over thread creation, yield_to and ring-channel delivery. The ring channel\'s '
           'step contracts are claimed under C07; nothing contract-sized remains that would decide C08. See DESIGN.md section 7.',
    'C09': 'Correctness of the rendezvous slot and of the waiter counters depends on the arrival order of senders and receivers across yields and '
           'vCPUs; the operations are methods of the template Channel<T> with new/delete/std::move ownership of the element, which the mechanical '
           'C lowering cannot carry without rewriting them (that would be a model, not the code). See DESIGN.md section 7.',
    'C11': 'Leader/follower election among concurrent callers, a reader filling ANOTHER caller\'s buffer, deadlines falling between two reads of one '
           'response: whole-history, multi-thread facts over std::unordered_map and intrusive lists whose code CBMC cannot ingest. The wire-format '
           'kernel is claimed under C12. See DESIGN.md section 7.',
    'C17': 'End-to-end byte equality of cached reads under concurrent refills, eviction and restart. The sequential pieces are std::map / file-system '
           'manipulations whose semantics would have to be assumed wholesale - the proof would be of a hand-written container and file-system model, '
           'not of the code. The range arithmetic and locking it rests on are claimed under C15 and C18. See DESIGN.md section 7.',
    'C19': 'The monitor invariant of ObjectCache lives in std::unordered_set, an intrusive list with a predicate lambda and a semaphore handshake '
           '(recycler); lowering that to C would be a hand-written model, and the dangerous cases are timer-versus-acquire interleavings across '
           'vCPUs, which contracts do not decide. See DESIGN.md section 7.',
}
