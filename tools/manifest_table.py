TRUST = ('Trusted base: cbmc 6.11 (C front end, goto-instrument --dfcc, SAT/SMT back ends); the mechanical C++->C lowering '
         'rules in specs/<id>/spec.py (must-fire regex rules, re-applied to /repo on every run, cross-checked by a native '
         'differential run of the real C++); library stubs with assumed contracts listed in evidence.assumptions.')
CLAIMED = {
    'C20': dict(
        text='Proof: Path::iterator::set (two loop contracts), Path::level_valid (loop contract with ghost lexical depth, '
             'set replaced by its contract) and SubFileSystem::PathCat (level_valid/strlen replaced by contracts, memcpy as a '
             'logging stub) are lowered from /repo on every run and verified with goto-instrument --dfcc for every '
             'NUL-terminated string shorter than PATH_MAX: level_valid(p) is true exactly when no prefix of the component '
             'sequence has negative depth and all components were visited; PathCat forwards base++p only for such p and accepts '
             'every such p that fits.  Bounded CBMC (length <= 7) and a native exhaustive run (length <= 9/13) on the real '
             'level_valid/PathCat with an independent resolver supply counterexamples.',
        note=TRUST + ' strlen/memcpy are libc stubs; std::string_view == modelled for the empty end() view only; the 30+ '
             'forwarding methods of SubFileSystem are not yet under contract (each is `PathCat __(this, path); return underlay->op(path...)`).',
        technique='deductive verification: CBMC function + loop contracts (goto-instrument --dfcc) on mechanically lowered real code; '
                  'bounded CBMC + native replay for counterexamples',
        design='§6 C20'),
}
NA = {}
