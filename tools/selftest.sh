#!/bin/sh
# regression test of the machinery itself: every stored seeded change must make its check exit 1 (evidence redirected, /repo restored)
cd /verif
for d in seeded/C*/; do
  n=$(basename $d); id=${n%%-*}; p=$d/patch.ported.diff; [ -f $p ] || p=$d/patch.diff
  s=$(date +%s); out=$(tools/try_seed.sh $id /verif/$p 2>&1); e=$(date +%s)
  rc=$(echo "$out" | grep -o "check rc=[0-9]*" | tail -1)
  echo "$n $rc $((e-s))s $(echo "$out" | grep -c VIOLATION) violation line(s) $(echo "$out" | grep -E 'PATCH DOES NOT APPLY|not clean' | head -1)"
done
