#!/usr/bin/env python3
"""tools/store_seed.py <PID> <name> <srcdir> <confirm-log> <detected_by> [patchfile]  — copy a confirmed seeded change into /verif/seeded/"""
import sys, os, json, shutil, re
pid, name, src, clog, detected = sys.argv[1:6]
patchfile = sys.argv[6] if len(sys.argv) > 6 else 'patch.diff'
dst = '/verif/seeded/%s-%s' % (pid, re.sub(r'^C\d\d-', '', name))
os.makedirs(dst, exist_ok=True)
for f in os.listdir(src):
    if f in ('patch.diff', 'patch.ported.diff', 'demo.cpp', 'notes.txt', 'mock_stream.h', 'frag_stream.h', 'recfs.h', 'iov_model.h', 'memfile.h'):
        shutil.copy(os.path.join(src, f), os.path.join(dst, f))
log = open(clog).read()
m = re.search(r'=== (?:\S+/)?%s\n(.*?)(?:\n===|\n[A-Z]*DONE|\Z)' % re.escape(name), log, re.S)
block = m.group(1).strip().split('\n') if m else []
tests = [l for l in block if 'WITH change' in l and 'demo' not in l]
dw = [l for l in block if l.startswith('demo WITH')]
dwo = [l for l in block if l.startswith('demo WITHOUT')]
notes = open(os.path.join(src, 'notes.txt')).read() if os.path.exists(os.path.join(src, 'notes.txt')) else ''
meta = dict(property=pid, name=re.sub(r'^C\d\d-', '', name), breaks='see notes.txt', needs_to_manifest=notes[:600],
            confirmed=dict(existing_tests_with_change=tests, demo_with_change=dw[0] if dw else '?', demo_without_change=dwo[0] if dwo else '?',
                           how='scratch worktree %s: git apply patch.diff; cmake --build (library + test targets); run the tests; build + run demo; git checkout; rebuild; run demo' % os.path.dirname(os.path.dirname(src.rstrip('/')))),
            detected_by=detected, check_result='./check %s exits 1 with VIOLATION with %s applied to /repo (tools/try_seed.sh)' % (pid, patchfile))
json.dump(meta, open(os.path.join(dst, 'meta.json'), 'w'), indent=1)
print(dst, 'tests:', len(tests), dw, dwo)
