#!/bin/sh
# usage: tools/mut.sh <ID> <file-in-repo> <sed-expr> [check args...]  — apply a textual mutant, run the check, restore
id=$1; f=$2; e=$3; shift 3
cd /repo && cp "$f" /tmp/mut_backup.$$ && sed -i "$e" "$f"
if git diff --quiet -- "$f"; then echo "MUTANT DID NOT APPLY"; rm /tmp/mut_backup.$$; exit 9; fi
git diff -U0 -- "$f" | grep -E "^[+-]" | grep -vE "^(\+\+\+|---)"
cd /verif && VERIF_EVIDENCE_DIR=/tmp/mut_evidence ./check $id "$@" 2>&1 | grep -E "VIOL|UNDEC|KNOWN|^C[0-9]+:|failed|error|timeout|vacuous|cex"
echo "rc=$?"
cp /tmp/mut_backup.$$ /repo/"$f"; rm /tmp/mut_backup.$$
cd /repo && git diff --quiet -- "$f" && echo restored
