#!/usr/bin/env python3
"""Regenerates /verif/MANIFEST.json from the table below (kept in one place so it stays valid)."""
import json, os, sys
V = os.path.dirname(os.path.dirname(os.path.abspath(__file__)))

TRUST = ('Trusted base: cbmc 6.11 (C front end, goto-instrument --dfcc, SAT/SMT back ends); the mechanical C++->C lowering '
         'rules in specs/<id>/spec.py (regex rules re-applied to /repo on every run; text no rule matches passes through verbatim and must compile as C; '
         'cross-checked by native runs of the real C++); library stubs with assumed contracts listed in evidence.assumptions.')

CLAIMED = {
    'C15': dict(
        text='Proof: basic_range_split::init, aligned_begin_offset() / aligned_end_offset(), both iterators (begin/end/==/++) and the three Derived classes are lowered from '
             '/repo on every run; init + the client loops over all_parts()/aligned_parts() are proved against an abstract '
             'Derived (uninterpreted divide/multiply/get_length + axioms A1-A7) for ALL offsets/lengths <= 2^61 and any number '
             'of blocks (induction: base/step/exit obligations); range_split_power2 and range_split_vi are proved to satisfy '
             'the axioms over the full 64-bit domain; for the general interval the link between machine / % and Euclidean '
             'division is bounded (SAT x<=1023, native exhaustive x<8192) and otherwise trusted.',
        note=TRUST + ' std::upper_bound contract assumed; key_points strictly ascending (documented precondition); '
             'machine division is Euclidean and monotone (C standard) for the general-interval variant.',
        technique='deductive verification: CBMC full-domain harnesses over mechanically lowered real code, uninterpreted-function '
                  'abstraction of the CRTP Derived, hand-instantiated loop rule; bounded CBMC + native replay for counterexamples',
        design='§6 C15'),
}

NA = {}


def main():
    props = [json.loads(l) for l in open(os.path.join(V, 'properties.jsonl'))]
    sys.path.insert(0, V)
    try:
        from tools import manifest_table as T
        CLAIMED.update(T.CLAIMED)
        NA.update(T.NA)
    except ImportError:
        pass
    checks = []
    na = []
    for p in props:
        pid = p['id']
        if pid in CLAIMED:
            c = CLAIMED[pid]
            checks.append(dict(
                property_id=pid,
                quick_cmd='./check %s --tier quick' % pid,
                thorough_cmd='./check %s --tier thorough' % pid,
                evidence_file='/verif/evidence/%s.json' % pid,
                replay_cmd_template='./check %s --replay {path}' % pid,
                engine='cbmc-contracts',
                level_claimed=dict(category=c.get('category', 'proof'), text=c['text'], design_ref=c.get('design', '')),
                level_note=c['note'],
                technique=c['technique']))
        else:
            na.append(dict(property_id=pid, reason=NA.get(pid, 'check not built yet (build in progress); see DESIGN.md')))
    m = dict(
        version=1,
        setup_cmd='true',
        hooks=dict(guard='PHOTON_VERIF',
                   enable='none needed: contracts and ghost code live in /verif/specs and are injected into text extracted '
                          'from /repo on every run; no hook was added to /repo',
                   baseline_off_cmd='ctest --test-dir /repo/_build -j8 --timeout 900',
                   source_commits=[], add_only=True),
        engines=[dict(name='cbmc-contracts', path='/verif/engine', serves_properties=sorted(CLAIMED),
                      kind_free_text='extract + mechanically lower the real functions of /repo to C on every run, inject '
                                     'contracts/ghost code from /verif/specs, discharge with goto-instrument --dfcc + cbmc '
                                     '(SAT, cadical, z3, cvc5) - the Hoare loop rule is instantiated textually on the real loops; bounded cbmc harnesses and '
                                     'native programs on the real C++ supply counterexamples and cover what no contract reaches')],
        checks=checks,
        notes='See DESIGN.md. Exit codes of ./check: 0 held, 1 VIOLATION, 2 undecided (extraction/tool failure).',
        not_applicable=na)
    json.dump(m, open(os.path.join(V, 'MANIFEST.json'), 'w'), indent=1)
    print('MANIFEST.json: %d checks, %d not_applicable' % (len(checks), len(na)))


if __name__ == '__main__':
    main()
