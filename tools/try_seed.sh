#!/bin/sh
# usage: tools/try_seed.sh <ID> <patch> [check args]   — apply a seeded patch to /repo, run the check, always restore
id=$1; patch=$2; shift 2
cd /repo || exit 9
git diff --quiet || { echo "/repo not clean"; exit 9; }
git apply "$patch" || { echo "PATCH DOES NOT APPLY"; exit 9; }
cd /verif && VERIF_EVIDENCE_DIR=/tmp/mut_evidence ./check $id "$@" > /tmp/try_seed.out 2>&1; rc=$?
grep -E "VIOL|UNDEC|KNOWN|^C[0-9]+:|failed|cex" /tmp/try_seed.out | cut -c1-260
echo "check rc=$rc"
git -C /repo checkout -- . && git -C /repo diff --quiet && echo restored
