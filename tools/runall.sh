#!/bin/sh
# run every registered quick check on the current tree; print one status line each
cd /verif
for id in $(python3 -c "import json;print(' '.join(c['property_id'] for c in json.load(open('MANIFEST.json'))['checks']))"); do
  s=$(date +%s); ./check $id --tier ${1:-quick} > /tmp/runall_$id.log 2>&1; rc=$?; e=$(date +%s)
  echo "$id rc=$rc $((e-s))s $(grep -E '^C[0-9]+:' /tmp/runall_$id.log | tail -1)"
done
python3-vt - <<'PY'
import json,jsonschema,glob
sch=json.load(open('/root/.vp/EVIDENCE.schema.json'))
for f in sorted(glob.glob('/verif/evidence/*.json')):
    try:
        d=json.load(open(f)); jsonschema.validate(d,sch)
        c=d['coverage']; print(f.split('/')[-1],'valid', c.get('obligations'),c.get('discharged'))
    except Exception as e: print(f,'INVALID',str(e)[:100])
PY
