#!/usr/bin/env python3
"""Driver: ./check <ID> [--tier quick|thorough] [--replay FILE]

Exit codes: 0 property held on everything explored; 1 VIOLATION; 2 undecided
(extraction broke / tool failure / timeout / auxiliary-only failure)."""
import sys, os, re, json, time, shutil, subprocess, importlib.util, hashlib, concurrent.futures as cf

HERE = os.path.dirname(os.path.abspath(__file__))
VERIF = os.path.dirname(HERE)
sys.path.insert(0, VERIF)
from engine import extract as X            # noqa: E402
from engine.api import Target, Proof, Native  # noqa: E402

REPO = os.environ.get('VERIF_REPO', '/repo')
NCPU = int(os.environ.get('VERIF_JOBS', '16'))

AUX_DESC_RE = re.compile(r'^LOOP [^:]*: (invariant|variant|frame)')
AUX_RE = re.compile(r'(loop_invariant_base|loop_invariant_step|loop_decreases|loop_assigns|loop_step_unwinding|'
                    r'\.assigns\.|\.unwind\.|recursion)')
DEFAULT_CHECKS = ['--bounds-check', '--pointer-check', '--div-by-zero-check', '--signed-overflow-check',
                  '--undefined-shift-check', '--pointer-overflow-check']
PROP_RE = re.compile(r'^\[([^\]]+)\] (?:line (\d+) )?(.*): (SUCCESS|FAILURE|UNKNOWN|ERROR)$')


def log(*a):
    print(*a, flush=True)


def sh(cmd, timeout=None, cwd=None, mem_gb=None, env=None):
    """Run cmd (list) -> (rc, out, secs). rc -9 on timeout."""
    t0 = time.time()
    pre = None
    if mem_gb:
        import resource

        def pre():
            lim = int(mem_gb * (1 << 30))
            resource.setrlimit(resource.RLIMIT_AS, (lim, lim))
    try:
        p = subprocess.run(cmd, stdout=subprocess.PIPE, stderr=subprocess.STDOUT, timeout=timeout, cwd=cwd,
                           preexec_fn=pre, env=env)
        return p.returncode, p.stdout.decode('utf-8', 'replace'), time.time() - t0
    except subprocess.TimeoutExpired as e:
        out = (e.stdout or b'').decode('utf-8', 'replace')
        return -9, out + '\n[engine] TIMEOUT after %ss\n' % timeout, time.time() - t0


class ProofResult:
    def __init__(self, proof):
        self.proof = proof
        self.status = 'error'     # ok | failed | timeout | error | vacuous
        self.props = []           # (name, desc, status)
        self.failed = []          # non-canary failures (name, desc)
        self.canaries_fired = 0
        self.secs = 0.0
        self.solver_secs = 0.0
        self.cmds = []
        self.log = ''
        self.note = ''
        self.traces = {}          # prop name -> {input: value}


def load_spec(pid):
    path = os.path.join(VERIF, 'specs', pid, 'spec.py')
    if not os.path.exists(path):
        log('no spec for', pid)
        sys.exit(2)
    sp = importlib.util.spec_from_file_location('spec_' + pid, path)
    mod = importlib.util.module_from_spec(sp)
    sp.loader.exec_module(mod)
    return mod


def lower_targets(spec, failed=None):
    out = {}
    for t in spec.TARGETS:
      try:
            if t.region_end:
                ex = X.extract_region(REPO, t.file, t.locate, t.region_end)
            else:
                ex = X.extract_function(REPO, t.file, t.locate, t.index, t.count)
            body = ex.body
            if t.init_list:
                body = '{ ' + X.init_list_statements(ex.sig, what=t.name) + body[body.index('{') + 1:]
            missed = []
            if t.pre_rules:
                body, _ = X.apply_rules(body, t.pre_rules, what=t.name, missed=missed)
            if t.refs:
                body = X.lower_refs(body, what=t.name)
            if t.scoped:
                body = X.lower_block_scoped(body, what=t.name, **t.scoped)
            if t.defers:
                body = X.lower_defers(body, what=t.name, **t.defers)
            rules = (X.COMMON_RULES if t.common else []) + t.rules
            body, fired = X.apply_rules(body, rules, what=t.name, missed=missed)
            if t.marks:
                body = X.mark_loops(body, t.marks, what=t.name)
            if t.loops:
                body = X.inject_loop_contracts(body, t.loops, what=t.name)
            if t.ghost:
                body = X.inject_at(body, t.ghost, what=t.name)
            out[t.name] = dict(ex=ex, body=body, fired=fired, missed=missed)
      except X.ExtractionError as e:
        if failed is None:
            raise
        failed[t.name] = str(e)
    return out


def gen_units(spec, lowered, work):
    units = {}
    sdir = os.path.join(VERIF, 'specs', spec.ID)
    for uname, tmpl in spec.UNITS.items():
        text = tmpl(lowered) if callable(tmpl) else open(os.path.join(sdir, tmpl)).read()

        def sub(m):
            n = m.group(1)
            if n not in lowered:
                if n in getattr(spec, 'FAILED_TARGETS', {}):
                    # the function could not be lowered: every proof that reaches it is undecided, the others in this unit still run
                    return '{ __CPROVER_assert(0, "EXTRACTION FAILED: %s"); __CPROVER_assume(0); }' % n
                raise X.ExtractionError('template %s references unknown target %s' % (getattr(tmpl, '__name__', tmpl), n))
            ex = lowered[n]['ex']
            consts = ''.join('\n#undef %s\n#define %s (%s)\n' % (k, k, v) for k, v in lowered[n].get('consts', {}).items())
            return '/* lowered from %s */ %s%s /*@END %s@*/' % (ex.where(), consts, lowered[n]['body'], n)
        text = re.sub(r'/\*@BODY (\w+)@\*/', sub, text)
        p = os.path.join(work, uname)
        open(p, 'w').write(text)
        units[uname] = p
    return units


def compile_check(spec, uname, src, work):
    """Compile the generated unit with goto-cc for every define-set its proofs use; on an error located inside a lowered body
    return that target's name, else None."""
    defsets = []
    for pr in spec.PROOFS:
        if pr.unit == uname and sorted(pr.defines) not in defsets:
            defsets.append(sorted(pr.defines))
    incs = ['-I', os.path.join(VERIF, 'prelude'), '-I', os.path.join(VERIF, 'specs'), '-I', os.path.dirname(src)]
    text = None
    for ds in defsets[:8]:
        cmd = ['goto-cc', '-c'] + ['-D' + x for x in ds] + ['-DVERIF_CBMC'] + incs + [src, '-o', os.path.join(work, 'cc_%s.o' % re.sub(r'\W', '_', uname))]
        rc, out, _ = sh(cmd, timeout=120)
        if rc == 0:
            continue
        m = re.search(re.escape(src) + r':(\d+):', out) or re.search(r':(\d+):\d*:? *error', out)
        if not m:
            return None
        ms = re.search(r"failed to find symbol '(\w+)'", out)
        compile_check.symbol = ms.group(1) if ms else None
        line = int(m.group(1))
        if text is None:
            text = open(src).read()
        lines = text.split('\n')
        pos = sum(len(l) + 1 for l in lines[:line - 1])
        # the lowered body that contains this position
        for mm in re.finditer(r'/\* lowered from [^*]*\*/', text):
            e = re.compile(r'/\*@END (\w+)@\*/').search(text, mm.end())
            if e and mm.start() <= pos <= e.end():
                return e.group(1)
        return None
    return None


def run_proof(pr, units, work):
    r = ProofResult(pr)
    t0 = time.time()
    tag = re.sub(r'[^A-Za-z0-9_.-]', '_', pr.name)
    d = os.path.join(work, 'p_' + tag)
    os.makedirs(d, exist_ok=True)
    src = units[pr.unit]
    incs = ['-I', os.path.join(VERIF, 'prelude'), '-I', os.path.join(VERIF, 'specs'), '-I', os.path.dirname(src)]
    defs = ['-D' + x for x in pr.defines] + ['-DVERIF_CBMC']
    a = os.path.join(d, 'a.gb')
    logs = []
    cmd1 = ['goto-cc', '--function', pr.harness] + defs + incs + [src, '-o', a]
    rc, out, _ = sh(cmd1, timeout=120)
    r.cmds.append(' '.join(cmd1))
    logs.append('$ ' + ' '.join(cmd1) + '\n' + out)
    if rc != 0:
        r.status = 'error'
        r.note = 'goto-cc failed'
        r.log = '\n'.join(logs)
        r.secs = time.time() - t0
        return r
    binf = a
    if not pr.no_dfcc:
        b = os.path.join(d, 'b.gb')
        cmd2 = ['goto-instrument', '--dfcc', pr.harness]
        enf = pr.enforce if isinstance(pr.enforce, (list, tuple)) else ([pr.enforce] if pr.enforce else [])
        for e in enf:
            cmd2 += ['--enforce-contract', e]
        for g in pr.replace:
            cmd2 += ['--replace-call-with-contract', g]
        if pr.loop_contracts and pr.kind == 'U':
            cmd2 += ['--apply-loop-contracts']
        cmd2 += [a, b]
        rc, out, _ = sh(cmd2, timeout=300, mem_gb=pr.mem_gb)
        r.cmds.append(' '.join(cmd2))
        logs.append('$ ' + ' '.join(cmd2) + '\n' + out[-6000:])
        if rc != 0:
            r.status = 'error'
            r.note = 'goto-instrument failed'
            r.log = '\n'.join(logs)
            r.secs = time.time() - t0
            return r
        binf = b
    checks = list(pr.checks) if pr.checks is not None else list(DEFAULT_CHECKS)
    cmd3 = ['cbmc', binf, '--drop-unused-functions'] + checks + list(pr.flags)
    if pr.unwind is not None:
        cmd3 += ['--unwind', str(pr.unwind), '--unwinding-assertions']
    if pr.unwindset:
        cmd3 += ['--unwindset', pr.unwindset]
    if pr.object_bits:
        cmd3 += ['--object-bits', str(pr.object_bits)]
    if pr.backend == 'z3':
        cmd3 += ['--z3']
    elif pr.backend == 'cvc5':
        cmd3 += ['--cvc5']
    elif pr.backend in ('cadical', 'kissat'):
        cmd3 += ['--sat-solver', 'cadical'] if pr.backend == 'cadical' else ['--external-sat-solver', 'kissat']
    if pr.kind == 'B' and pr.backend == 'sat':
        cmd3 += ['--trace']      # cadical + --trace ends in VERIFICATION ERROR in cbmc 6.11: bounded proofs on cadical give no input trace
    # the per-proof timeouts in the specs are 3-5x the time measured on an idle 16-core machine; a loaded or slower machine gets
    # VERIF_TIMEOUT_FACTOR (default 4) times that before a run is given up as undecided
    rc, out, secs = sh(cmd3, timeout=int(pr.timeout * float(os.environ.get('VERIF_TIMEOUT_FACTOR', '4'))), mem_gb=pr.mem_gb)
    r.cmds.append(' '.join(cmd3))
    logs.append('$ ' + ' '.join(cmd3) + '\n' + out)
    r.log = '\n'.join(logs)
    r.solver_secs = secs
    r.secs = time.time() - t0
    open(os.path.join(d, 'log.txt'), 'w').write(r.log)
    if rc == -9:
        r.status = 'timeout'
        r.note = 'cbmc timeout %ss' % pr.timeout
        return r
    for line in out.splitlines():
        m = PROP_RE.match(line.strip())
        if m:
            r.props.append((m.group(1), m.group(3), m.group(4)))
    if not r.props or ('VERIFICATION SUCCESSFUL' not in out and 'VERIFICATION FAILED' not in out):
        r.status = 'error'
        r.note = 'cbmc produced no verdict (rc=%d)' % rc
        return r
    if re.search(r'ignoring (forall|exists)|Parse Error|SMT2 solver returned error', out):
        r.status = 'error'
        r.note = 'solver log contains ignoring/parse error'
        return r
    nb = sorted(set(n.split('.no-body.')[-1] for n, dsc, st in r.props if '.no-body.' in n and st != 'SUCCESS'))
    if nb:
        # the lowered text calls a function the unit neither defines nor stubs: nothing can be concluded about it
        r.status = 'error'
        r.note = 'calls function(s) without a body in the unit: ' + ', '.join(nb)
        return r
    if any('EXTRACTION FAILED' in dsc and st != 'SUCCESS' for n, dsc, st in r.props):
        r.status = 'error'
        r.note = 'reaches a function that could not be lowered: ' + ', '.join(sorted(set(dsc.split(': ', 1)[-1] for n, dsc, st in r.props if 'EXTRACTION FAILED' in dsc and st != 'SUCCESS')))
        return r
    for n, dsc, st in r.props:
        if 'CANARY' in dsc:
            if st == 'FAILURE':
                r.canaries_fired += 1
        elif st != 'SUCCESS':
            r.failed.append((n, dsc))
    if len(r.props) < pr.min_obligations:
        r.status = 'vacuous'
        r.note = 'only %d obligations (< %d expected)' % (len(r.props), pr.min_obligations)
        return r
    nl = len([1 for n, _, _ in r.props if 'loop_invariant_step' in n])
    if pr.kind == 'U' and nl < pr.expect_loops:
        r.status = 'vacuous'
        r.note = 'only %d loop_invariant_step obligations (< %d): loop contract dropped?' % (nl, pr.expect_loops)
        return r
    if r.canaries_fired < pr.canaries:
        r.status = 'vacuous'
        r.note = 'canary did not fire (%d of %d): contradictory preconditions?' % (r.canaries_fired, pr.canaries)
        return r
    if r.failed:
        r.status = 'failed'
        if pr.kind == 'B':
            r.traces = parse_traces(out)
    else:
        r.status = 'ok'
    return r


_ASSIGN = re.compile(r'^\s{2}((?:in_|IN_)[\w\.\[\]$]*)=(.*?)(?: \([01 ]+\))?$')


def _val(v):
    v = v.strip()
    if v.startswith('{'):
        inner = v.strip('{} ')
        return [_val(x) for x in _split_top(inner)] if inner else []
    m = re.match(r'^(-?\d+)(?:[uUlL]*)$', v)
    if m:
        return int(m.group(1))
    m = re.match(r"^'(.*)'$", v)
    if m:
        c = m.group(1)
        if len(c) == 1:
            return ord(c)
        esc = {'\\0': 0, '\\n': 10, '\\t': 9, '\\r': 13, "\\'": 39, '\\\\': 92}
        if c in esc:
            return esc[c]
        mo = re.match(r'^\\(\d+)$', c)
        return int(mo.group(1), 8) if mo else v
    if v in ('TRUE', 'true'):
        return 1
    if v in ('FALSE', 'false'):
        return 0
    m = re.match(r'^\.\w+=(.*)$', v)
    if m:
        return _val(m.group(1))
    return v


def _split_top(s):
    out, depth, cur = [], 0, ''
    for ch in s:
        if ch == '{':
            depth += 1
        if ch == '}':
            depth -= 1
        if ch == ',' and depth == 0:
            out.append(cur)
            cur = ''
        else:
            cur += ch
    if cur.strip():
        out.append(cur)
    return out


def parse_traces(out):
    """Map failed property name -> dict of named inputs (variables named in_*)."""
    traces = {}
    cur = None
    vals = {}
    for line in out.splitlines():
        m = re.match(r'^Trace for (\S+?):?$', line.strip())
        if m:
            if cur:
                traces[cur] = vals
            cur = m.group(1)
            vals = {}
            continue
        if cur:
            m = _ASSIGN.match(line)
            if m:
                lhs, v = m.group(1), _val(m.group(2))
                ma = re.match(r'^(\w+)\[(\d+)l?\](?:\.(\w+))?$', lhs)
                if ma:
                    base = ma.group(1) + (('.' + ma.group(3)) if ma.group(3) else '')
                    arr = vals.setdefault(base, {})
                    if isinstance(arr, list):
                        arr = {i: x for i, x in enumerate(arr)}
                        vals[base] = arr
                    arr[int(ma.group(2))] = v
                else:
                    vals[lhs] = v
    if cur:
        traces[cur] = vals
    for t in traces.values():
        for k, v in list(t.items()):
            if isinstance(v, dict):
                n = max(v) + 1
                t[k] = [v.get(i, 0) for i in range(n)]
    return traces


def build_native(nat, spec, units, work):
    sdir = os.path.join(VERIF, 'specs', spec.ID)
    d = os.path.join(work, 'n_' + nat.name)
    os.makedirs(d, exist_ok=True)
    objs = []
    logs = ''
    for u in nat.lowered_units:
        o = os.path.join(d, u + '.o')
        cmd = ['gcc', '-O1', '-w', '-c', '-DVERIF_NATIVE', '-I', os.path.join(VERIF, 'prelude'),
               '-I', os.path.join(VERIF, 'specs'), units[u], '-o', o]
        rc, out, _ = sh(cmd, timeout=300)
        logs += '$ ' + ' '.join(cmd) + '\n' + out
        if rc != 0:
            return None, logs
        objs.append(o)
    exe = os.path.join(d, nat.name)
    inc = os.path.join(work, 'inc')
    if not os.path.exists(os.path.join(inc, 'photon')):
        os.makedirs(inc, exist_ok=True)
        try:
            os.symlink(REPO, os.path.join(inc, 'photon'))
        except FileExistsError:
            pass
    cmd = ['g++', '-std=c++14', '-O2', '-DNDEBUG', '-w', '-I', inc, '-I', REPO, '-I', os.path.join(REPO, 'include'),
           '-I', os.path.join(VERIF, 'prelude'), '-I', os.path.join(VERIF, 'specs'), '-I', work] + nat.cxxflags + \
          [os.path.join(sdir, nat.src)] + [os.path.join(sdir, s) for s in nat.extra_src] + objs + ['-o', exe]
    if nat.link_photon:
        cmd += [os.path.join(REPO, '_build/output/libphoton.a')]
    cmd += nat.ldflags
    if nat.link_photon:
        cmd += ['-lpthread', '-ldl', '-lrt']
    rc, out, _ = sh(cmd, timeout=600)
    logs += '$ ' + ' '.join(cmd) + '\n' + out
    if rc != 0:
        return None, logs
    return exe, logs


def known_findings(pid):
    res = []
    p = os.path.join(VERIF, 'known_findings.txt')
    if os.path.exists(p):
        for line in open(p):
            line = line.strip()
            m = re.match(r'^finding:\s+property=(\S+)\s+key=(\S+)\s+(.*)$', line)
            if m and m.group(1) == pid:
                res.append((m.group(2), m.group(3)))
    return res


def write_replay(pid, obligation, data):
    d = os.path.join(VERIF, 'replays', pid)
    os.makedirs(d, exist_ok=True)
    p = os.path.join(d, re.sub(r'[^A-Za-z0-9_.-]', '_', obligation) + '.json')
    json.dump(data, open(p, 'w'), indent=1)
    return p


def main():
    args = sys.argv[1:]
    if not args:
        log(__doc__)
        sys.exit(2)
    pid = args[0]
    tier = os.environ.get('VERIF_TIER', 'quick')
    replay = None
    only = None
    i = 1
    while i < len(args):
        if args[i] == '--tier':
            tier = args[i + 1]
            i += 2
        elif args[i] == '--replay':
            replay = args[i + 1]
            i += 2
        elif args[i] == '--only':
            only = args[i + 1]
            i += 2
        else:
            i += 1
    seed = int(os.environ.get('VERIF_SEED', '1'))
    t0 = time.time()
    spec = load_spec(pid)
    # one work directory per run (two concurrent runs of the same check must not disturb each other);
    # `.work/<ID>` is a symlink to the latest one, older ones are removed after 30 minutes
    wroot = os.environ.get('VERIF_WORK', os.path.join(VERIF, '.work'))
    os.makedirs(wroot, exist_ok=True)
    for dname in os.listdir(wroot):
        dp = os.path.join(wroot, dname)
        try:
            if dname.startswith(pid + '.') and time.time() - os.path.getmtime(dp) > 1800:
                shutil.rmtree(dp, ignore_errors=True)
        except OSError:
            pass
    work = os.path.join(wroot, '%s.%d' % (pid, os.getpid()))
    shutil.rmtree(work, ignore_errors=True)
    os.makedirs(work, exist_ok=True)
    link = os.path.join(wroot, pid)
    try:
        if os.path.islink(link) or os.path.isfile(link):
            os.unlink(link)
        elif os.path.isdir(link):
            shutil.rmtree(link, ignore_errors=True)
        os.symlink(work, link)
    except OSError:
        pass
    if not replay:
        shutil.rmtree(os.path.join(VERIF, 'replays', pid), ignore_errors=True)

    undecided = []   # strings
    failed_targets = {}
    lowered = lower_targets(spec, failed_targets)
    units = {}
    broken_units = {}
    sdir_ = os.path.join(VERIF, 'specs', spec.ID)
    for uname, tmpl in spec.UNITS.items():
        try:
            one = type('S', (), dict(ID=spec.ID, UNITS={uname: tmpl}, FAILED_TARGETS=failed_targets))
            units.update(gen_units(one, lowered, work))
        except X.ExtractionError as e:
            broken_units[uname] = str(e)
    # left-over C++ in ONE lowered body must not take the whole unit down: compile each unit once per define-set; when goto-cc reports
    # an error inside a lowered body, that target is treated as not lowerable (its proofs become undecided) and the unit is regenerated
    for uname, tmpl in spec.UNITS.items():
        for _round in range(10):
            if uname not in units:
                break
            bad = compile_check(spec, uname, units[uname], work)
            if not bad or bad in failed_targets:
                break
            # a named integer constant the changed text introduced or uses (static constexpr T NAME = <literal expression>; in the same
            # file) is resolved mechanically from /repo and the unit regenerated
            sym = getattr(compile_check, 'symbol', None)
            if sym and bad in lowered and sym not in lowered[bad].setdefault('consts', {}):
                tfile = [t.file for t in spec.TARGETS if t.name == bad][0]
                mc = re.search(r'\b(?:constexpr|const)\s+(?:[\w:]+\s+)+' + sym + r'\s*=\s*([\dxXa-fA-FuUlL\s+\-*/()<>|&~]+);', open(os.path.join(REPO, tfile)).read())
                if mc:
                    lowered[bad]['consts'][sym] = mc.group(1).strip()
                    log('NOTE %s: constant %s = %s resolved from %s' % (bad, sym, mc.group(1).strip(), tfile))
                    one = type('S', (), dict(ID=spec.ID, UNITS={uname: tmpl}, FAILED_TARGETS=failed_targets))
                    units.update(gen_units(one, lowered, work))
                    continue
            failed_targets[bad] = '%s: the lowered text does not compile as C (left-over C++ after the lowering rules)' % bad
            lowered.pop(bad, None)
            try:
                one = type('S', (), dict(ID=spec.ID, UNITS={uname: tmpl}, FAILED_TARGETS=failed_targets))
                units.update(gen_units(one, lowered, work))
            except X.ExtractionError as e:
                broken_units[uname] = str(e)
                units.pop(uname, None)
    for tname, msg in failed_targets.items():
        undecided.append('extraction: %s' % msg)
    for t in spec.TARGETS:
        for m in lowered.get(t.name, {}).get('missed', []):
            log('NOTE ' + m)

    natives = {}
    if replay:
        data = json.load(open(replay))
        nname = data.get('native') or spec.REPLAY
        nat = [n for n in spec.NATIVES if n.name == nname][0]
        exe, lg = build_native(nat, spec, units, work)
        if not exe:
            log(lg[-3000:])
            log('UNDECIDED property=%s reason=native build failed' % pid)
            sys.exit(2)
        rc, out, _ = sh([exe, '--replay', replay], timeout=nat.timeout)
        log(out.strip())
        sys.exit(1 if 'REPRODUCED' in out and 'NOT-REPRODUCED' not in out else 0)

    proofs = [p for p in spec.PROOFS if (p.tier == 'quick' or tier == 'thorough')]
    skipped = [p for p in proofs if p.unit not in units]
    for p in skipped:
        undecided.append('%s: not run, its unit could not be generated (%s)' % (p.name, broken_units.get(p.unit, '?')[:160]))
    proofs = [p for p in proofs if p.unit in units]
    if only:
        proofs = [p for p in proofs if re.search(only, p.name)]
    results = []
    with cf.ThreadPoolExecutor(max_workers=NCPU) as ex:
        futs = {ex.submit(run_proof, p, units, work): p for p in proofs}
        natfuts = {}
        for n in getattr(spec, 'NATIVES', []):
            natfuts[ex.submit(run_native, n, spec, units, work, tier, seed)] = n
        for f in cf.as_completed(list(futs) + list(natfuts)):
            if f in futs:
                r = f.result()
                results.append(r)
                log('  [%s] %-40s %-8s %3d obligations %5.1fs %s' % (r.proof.kind, r.proof.name, r.status, len(r.props),
                                                                  r.secs, r.note))
            else:
                natives[natfuts[f].name] = f.result()
                nr = natives[natfuts[f].name]
                log('  [N] %-40s %-8s %s' % (natfuts[f].name, nr['status'], nr.get('summary', '')))
    results.sort(key=lambda r: [p.name for p in proofs].index(r.proof.name))

    # ---------------- decide
    kf = known_findings(pid)
    violations = []      # (obligation, replay path, note)
    known_hit = []
    known_obl = set()      # (proof, obligation) pairs listed in known_findings.txt: reported separately, not counted as obligations of the proof claim
    for r in results:
        if r.status in ('error', 'timeout', 'vacuous'):
            undecided.append('%s: %s %s' % (r.proof.name, r.status, r.note))
            if r.status == 'error':
                log(r.log[-2500:])
    cex_of = {}
    for r in results:
        if r.proof.kind == 'B' and r.status == 'failed':
            for u in r.proof.cex_for:
                cex_of.setdefault(u, []).append(r)
    replay_nat = None
    rn = getattr(spec, 'REPLAY', None)
    for r in results:
        if r.status != 'failed':
            continue
        top = [(n, dsc) for n, dsc in r.failed if not (AUX_RE.search(n) or AUX_DESC_RE.search(dsc))]
        aux = [(n, dsc) for n, dsc in r.failed if (AUX_RE.search(n) or AUX_DESC_RE.search(dsc))]
        obl_all = top + aux
        # try to obtain a concrete input
        inputs = None
        src_b = None
        cands = [r] if r.proof.kind == 'B' else cex_of.get(r.proof.name, [])
        for b in cands:
            for pn, tr in b.traces.items():
                if tr:
                    inputs = tr
                    src_b = b.proof.name + ':' + pn
                    break
            if inputs:
                break
        reproduced = False
        rep_out = ''
        if inputs and rn:
            nat = [n for n in spec.NATIVES if n.name == rn][0]
            nres = natives.get(rn)
            exe = nres.get('exe') if nres else None
            if exe:
                tmp = os.path.join(work, 'cex_%s.json' % re.sub(r'\W', '_', r.proof.name))
                conv = getattr(spec, 'cex_to_replay', None)
                data = dict(property=pid, proof=r.proof.name, native=rn, inputs=inputs)
                if conv:
                    data = conv(r.proof, data)
                json.dump(data, open(tmp, 'w'))
                rc, rep_out, _ = sh([exe, '--replay', tmp], timeout=120)
                reproduced = ('REPRODUCED' in rep_out and 'NOT-REPRODUCED' not in rep_out)
        remaining = []
        for (n, dsc) in obl_all:
            oname = '%s/%s/%s' % (pid, r.proof.name, n)
            hit = [x for x in kf if re.search(x[0], oname + ' ' + dsc)]     # key: regex over '<pid>/<proof>/<obligation> <description>'
            if hit:
                known_hit.append(hit[0])
                known_obl.add((r.proof.name, n))
            else:
                remaining.append((n, dsc))
        if not remaining:
            continue
        rtop = [x for x in remaining if x in top]
        if not rtop and not reproduced and (getattr(spec, 'AUX_VIOLATION', False) or r.proof.aux_violation):
            # no native oracle exists for this property: an inductive obligation that is discharged on the unchanged tree and now
            # fails is reported (DESIGN §4), marked no-failing-input-found
            rtop = remaining
        if not rtop and not reproduced:
            undecided.append('%s: auxiliary obligation(s) %s failed, all top-level obligations hold, no concrete '
                             'failing input found' % (r.proof.name, ','.join(n for n, _ in remaining[:4])))
            continue
        # a native differential counterexample (real code vs oracle) is attached when the bounded layer gave none
        nat_cex = None
        if not reproduced:
            for nm, nr in natives.items():
                if nr.get('status') == 'cex':
                    nat_cex = nr['cex']
                    reproduced = True
                    src_b = 'native:' + nm
                    inputs = nat_cex
        # the named obligation: prefer a contract assertion (postcondition / stub precondition) over a derived safety check
        cand = (rtop or remaining)
        cand = sorted(cand, key=lambda x: (0 if '.assertion.' in x[0] and not AUX_DESC_RE.search(x[1]) else 1 if '.assertion.' in x[0] else 2))
        n0, d0 = cand[0]
        oname = '%s/%s/%s' % (pid, r.proof.name, n0)
        data = dict(property=pid, obligation=oname, description=d0, proof=r.proof.name, proof_kind=r.proof.kind,
                    failed_obligations=['[%s] %s' % x for x in remaining][:60], native=rn,
                    inputs=inputs if reproduced else None, inputs_from=src_b if reproduced else None,
                    reproduced_on_real_code=reproduced, replay_output=rep_out[-2000:],
                    unreproduced_candidate_inputs=None if reproduced else inputs,
                    verifier_output=[l for l in r.log.splitlines() if 'FAILURE' in l][:60], checker_cmd=r.cmds)
        path = write_replay(pid, '%s/%s' % (r.proof.name, n0), data)
        violations.append((oname, path, '' if reproduced else 'no-failing-input-found'))
    for name, nr in natives.items():
        for cls, js in nr.get('known', []):
            key = '%s/native/%s/%s' % (pid, name, cls)
            hit = [x for x in kf if re.search(x[0], key)]
            if hit:
                known_hit.append(hit[0])
        if nr['status'] == 'cex':
            oname = '%s/native/%s' % (pid, name)
            key = oname + '/' + nr.get('cex_class', '')
            hit = [x for x in kf if re.search(x[0], key)]
            if hit:
                known_hit.append(hit[0])
                continue
            data = dict(property=pid, obligation=oname, native=name, inputs=nr['cex'], reproduced_on_real_code=True,
                        note='found by the native differential run on the real code')
            path = write_replay(pid, oname, data)
            violations.append((oname, path, ''))
        elif nr['status'] != 'ok':
            undecided.append('native %s: %s' % (name, nr['status']))
            log(nr.get('log', '')[-3000:])

    # ---------------- evidence
    U = [r for r in results if r.proof.kind in ('U', 'L')]
    B = [r for r in results if r.proof.kind == 'B']
    # obligations listed as known findings are reported under known_finding_obligations and are not part of the proof claim
    n_obl = sum(len([p for p in r.props if 'CANARY' not in p[1] and (r.proof.name, p[0]) not in known_obl]) for r in U)
    n_dis = sum(len([p for p in r.props if 'CANARY' not in p[1] and p[2] == 'SUCCESS' and (r.proof.name, p[0]) not in known_obl]) for r in U)
    samples = []
    for r in U[:40]:
        ps = [p for p in r.props if 'CANARY' not in p[1]]
        pick = [p for p in ps if 'postcondition' in p[0] or 'assertion' in p[0]][:2] or ps[:1]
        for p in pick:
            samples.append('%s :: [%s] %s: %s' % (r.proof.name, p[0], p[1][:140], p[2]))
    assumptions = list(getattr(spec, 'ASSUMPTIONS', []))
    # mechanical scan of generated units for assumes / stubs
    for un, path in units.items():
        txt = open(path).read()
        na = len(re.findall(r'__CPROVER_assume\s*\(', txt))
        stubs = sorted(set(re.findall(r'/\*@TRUSTED:?\s*([^@]*)@\*/', txt)))
        if na:
            assumptions.append('%s: %d __CPROVER_assume statements (ghost definitional instances / harness preconditions; '
                               'listed in the unit)' % (un, na))
        for s in stubs:
            assumptions.append('%s: trusted stub: %s' % (un, s.strip()))
    ev = dict(
        property_id=pid, tier=tier, seed=seed, level=getattr(spec, 'LEVEL', 'proof'),
        coverage=dict(
            obligations=n_obl, discharged=n_dis,
            checker_cmd='; '.join(U[0].cmds) if U else 'n/a',
            trusted_base=list(getattr(spec, 'TRUSTED', [])),
            samples=samples[:60],
            explanation=getattr(spec, 'EXPLANATION', ''),
            functions_under_contract=[dict(name=t.name, where=lowered[t.name]['ex'].where(),
                                           sha256=lowered[t.name]['ex'].sha256[:16],
                                           lowering_rules_fired=sum(n for _, n in lowered[t.name]['fired']))
                                      for t in spec.TARGETS if t.name in lowered],
            proofs=[dict(name=r.proof.name, kind=r.proof.kind, backend=r.proof.backend, status=r.status,
                         obligations=len([p for p in r.props if 'CANARY' not in p[1]]),
                         discharged=len([p for p in r.props if 'CANARY' not in p[1] and p[2] == 'SUCCESS']),
                         canaries_fired=r.canaries_fired, wall_s=round(r.secs, 2), solver_s=round(r.solver_secs, 2),
                         enforce=r.proof.enforce, replaced=r.proof.replace) for r in U],
            bounded=[dict(name=r.proof.name, bound=r.proof.bound, status=r.status, backend=r.proof.backend,
                          obligations=len([p for p in r.props if 'CANARY' not in p[1]]),
                          discharged=len([p for p in r.props if 'CANARY' not in p[1] and p[2] == 'SUCCESS']),
                          wall_s=round(r.secs, 2)) for r in B],
            native_runs=[dict(name=k, status=v['status'], cases=v.get('cases', 0), summary=v.get('summary', ''))
                         for k, v in natives.items()],
            not_decided=list(getattr(spec, 'NOT_DECIDED', [])),
            undecided=undecided,
            lowering_rules_not_fired=[m for t in spec.TARGETS if t.name in lowered for m in lowered[t.name].get('missed', [])],
            known_findings=[k for k, _ in known_hit],
            known_finding_obligations=sorted('%s/%s' % x for x in known_obl),
        ),
        assumptions=assumptions,
        wall_s=round(time.time() - t0, 2),
        violations=len(violations),
    )
    evdir = os.environ.get('VERIF_EVIDENCE_DIR', os.path.join(VERIF, 'evidence'))
    os.makedirs(evdir, exist_ok=True)
    json.dump(ev, open(os.path.join(evdir, pid + '.json'), 'w'), indent=1)

    for k, what in sorted(set(known_hit)):
        log('KNOWN-FINDING: property=%s %s' % (pid, what))
    log('%s: %d proofs (%d obligations, %d discharged), %d bounded, %d native; %.1fs'
        % (pid, len(U), n_obl, n_dis, len(B), len(natives), time.time() - t0))
    if violations:
        seen = set()
        for oname, path, note in violations:
            if path in seen:
                continue
            seen.add(path)
            log(('VIOLATION property=%s replay=%s obligation=%s %s' % (pid, path, oname, note)).rstrip())
        sys.exit(1)
    if undecided:
        for u in undecided:
            log('UNDECIDED property=%s %s' % (pid, u))
        sys.exit(2)
    sys.exit(0)


def run_native(nat, spec, units, work, tier, seed):
    exe, lg = build_native(nat, spec, units, work)
    if not exe:
        return dict(status='build-failed', log=lg)
    a = nat.args_thorough if (tier == 'thorough' and nat.args_thorough) else nat.args_quick
    env = dict(os.environ)
    env['VERIF_SEED'] = str(seed)
    # classes of native counterexamples listed as known findings: the native program reports them as `KNOWN <class> {json}`
    # (once) and keeps going, so that a different violation is still found
    kn = []
    for k, _ in known_findings(spec.ID):
        m = re.search(r'native/%s/(\w+)' % re.escape(nat.name), k)
        if m:
            kn.append(m.group(1))
    env['VERIF_KNOWN'] = ','.join(kn)
    rc, out, secs = sh([exe] + [str(x) for x in a], timeout=int(nat.timeout * float(os.environ.get('VERIF_TIMEOUT_FACTOR', '4'))), env=env)
    res = dict(exe=exe, log=out[-4000:], secs=secs)
    res['known'] = re.findall(r'^KNOWN (\w+)\s*(\{.*\})$', out, re.M)
    m = re.search(r'(?:^|\x1b\[0m)OK (\d+)(.*)$', out, re.M)
    if rc == 0 and m:
        res.update(status='ok', cases=int(m.group(1)), summary=('%s cases%s' % (m.group(1), m.group(2))))
        return res
    m = re.search(r'(?:^|\x1b\[0m)CEX (\S+)?\s*(\{.*\})$', out, re.M)
    if rc == 3 and m:
        try:
            res.update(status='cex', cex=json.loads(m.group(2)), cex_class=m.group(1) or '')
            return res
        except ValueError:
            pass
    res['status'] = 'run-failed rc=%d' % rc
    return res


if __name__ == '__main__':
    main()
