"""Extraction of function text from /repo sources and mechanical lowering to C.

Everything here is purely textual and deterministic.  Failures raise
ExtractionError, which the driver maps to exit code 2 ("undecided: extraction
broke"), never to a violation.
"""
import re, hashlib, os


class ExtractionError(Exception):
    pass


def _skip_noncode(text, i):
    """If text[i:] starts a comment/string/char literal return index just past it, else None."""
    c = text[i]
    if c == '/' and i + 1 < len(text):
        if text[i + 1] == '/':
            j = text.find('\n', i)
            return len(text) if j < 0 else j
        if text[i + 1] == '*':
            j = text.find('*/', i + 2)
            if j < 0:
                raise ExtractionError('unterminated comment')
            return j + 2
    if c == '"' or c == "'":
        j = i + 1
        while j < len(text):
            if text[j] == '\\':
                j += 2
                continue
            if text[j] == c:
                return j + 1
            j += 1
        raise ExtractionError('unterminated literal')
    return None


def find_matching(text, open_idx):
    """Index of the bracket matching text[open_idx] (one of ( { [)."""
    pairs = {'(': ')', '{': '}', '[': ']'}
    o = text[open_idx]
    cl = pairs[o]
    depth = 0
    i = open_idx
    n = len(text)
    while i < n:
        s = _skip_noncode(text, i)
        if s is not None:
            i = s
            continue
        c = text[i]
        if c == o:
            depth += 1
        elif c == cl:
            depth -= 1
            if depth == 0:
                return i
        i += 1
    raise ExtractionError('unbalanced %s at %d' % (o, open_idx))


def find_code_char(text, ch, start):
    """First index >= start of ch outside comments/literals."""
    i = start
    n = len(text)
    while i < n:
        s = _skip_noncode(text, i)
        if s is not None:
            i = s
            continue
        if text[i] == ch:
            return i
        i += 1
    return -1


def strip_comments(text):
    out = []
    i = 0
    n = len(text)
    while i < n:
        c = text[i]
        if c == '/' and i + 1 < n and text[i + 1] in '/*':
            j = _skip_noncode(text, i)
            # keep newlines so line structure survives
            out.append(' ' + '\n' * text[i:j].count('\n'))
            i = j
            continue
        if c in '"\'':
            j = _skip_noncode(text, i)
            out.append(text[i:j])
            i = j
            continue
        out.append(c)
        i += 1
    return ''.join(out)


class Extracted:
    def __init__(self, relpath, start_line, end_line, sig, body, raw):
        self.relpath = relpath
        self.start_line = start_line
        self.end_line = end_line
        self.sig = sig          # text from locator match start to the opening brace
        self.body = body        # '{ ... }' including braces, comments stripped
        self.raw = raw          # exact original text sig+body
        self.sha256 = hashlib.sha256(raw.encode()).hexdigest()

    def where(self):
        return '%s:%d-%d' % (self.relpath, self.start_line, self.end_line)


def extract_function(repo, relpath, locator, index=0, count=1):
    """Locate a function by regex `locator` in repo/relpath.

    The regex must match exactly `count` times in the file; the `index`-th match is
    used.  The body is the brace-matched block that follows the match (a
    constructor initialiser list between the signature and the body is part of
    `sig`)."""
    path = os.path.join(repo, relpath)
    try:
        text = open(path, encoding='utf-8', errors='replace').read()
    except OSError as e:
        raise ExtractionError('cannot read %s: %s' % (relpath, e))
    ms = list(re.finditer(locator, text, re.S))
    if len(ms) != count:
        raise ExtractionError('%s: locator /%s/ matched %d times, expected %d'
                              % (relpath, locator, len(ms), count))
    m = ms[index]
    ob = find_code_char(text, '{', m.end())
    semi = find_code_char(text, ';', m.end())
    if ob < 0 or (0 <= semi < ob):
        raise ExtractionError('%s: no body after locator /%s/' % (relpath, locator))
    cb = find_matching(text, ob)
    raw = text[m.start():cb + 1]
    start_line = text.count('\n', 0, m.start()) + 1
    end_line = text.count('\n', 0, cb) + 1
    sig = text[m.start():ob]
    body = strip_comments(text[ob:cb + 1])
    return Extracted(relpath, start_line, end_line, sig, body, raw)


def extract_region(repo, relpath, start_re, end_re):
    """Extract text between two regex anchors (inclusive of start, exclusive of end).
    Each anchor must match exactly once."""
    path = os.path.join(repo, relpath)
    text = open(path, encoding='utf-8', errors='replace').read()
    ms = list(re.finditer(start_re, text, re.S))
    if len(ms) != 1:
        raise ExtractionError('%s: region start /%s/ matched %d times' % (relpath, start_re, len(ms)))
    s = ms[0].start()
    me = list(re.finditer(end_re, text[ms[0].end():], re.S))
    if len(me) < 1:
        raise ExtractionError('%s: region end /%s/ not found' % (relpath, end_re))
    e = ms[0].end() + me[0].start()
    raw = text[s:e]
    return Extracted(relpath, text.count('\n', 0, s) + 1, text.count('\n', 0, e) + 1,
                     '', strip_comments(raw), raw)


# ---------------------------------------------------------------- lowering

def apply_rules(text, rules, what='', missed=None):
    """rules: list of (pattern, replacement, min_fires) or (pattern, replacement, min_fires, max_fires).
    A rule with min_fires >= 1 is expected to fire.  When `missed` is a list, a rule that does not fire is RECORDED there and
    the text is left exactly as /repo has it (it then either fails to compile as C -> undecided, or is verified as written);
    otherwise ExtractionError.  A rule firing more often than max_fires is always an ExtractionError."""
    fired = []
    for r in rules:
        pat, rep, mn = r[0], r[1], min(r[2], 1)     # 'must fire' means at least once; exact counts made harmless refactors undecidable
        mx = r[3] if len(r) > 3 else None
        text, n = re.subn(pat, rep, text, flags=re.S)
        if mx is not None and n > mx:
            raise ExtractionError('%s: lowering rule /%s/ fired %d times (expected <=%d)' % (what, pat, n, mx))
        if n < mn:
            if missed is None:
                raise ExtractionError('%s: lowering rule /%s/ fired %d times (expected >=%d)' % (what, pat, n, mn))
            missed.append('%s: lowering rule /%s/ did not fire; the text is taken as /repo has it' % (what, pat))
        fired.append((pat, n))
    return text, fired


def fields_rule(names, prefix='this->', min_fires=1):
    """Rewrite bare member names to this_->name (not after . or ->, not declarations)."""
    alt = '|'.join(sorted((re.escape(n) for n in names), key=len, reverse=True))
    return (r'(?<![\w.])(?<!->)(%s)\b' % alt, prefix + r'\1', min_fires)


COMMON_RULES = [
    (r'\bnullptr\b', 'NULL', 0),
    (r'\b(?:un)?likely\s*\(', '(', 0),
    (r'\bauto\s+(?=[A-Za-z_])', '__auto_type ', 0),
    (r'\bstatic_cast\s*<\s*([^<>]+?)\s*>\s*\(', r'(\1)(', 0),
    (r'\bassert\s*\((?:[^()]|\([^()]*\))*\)\s*;', ';', 0),
    (r'\b_unused\s*\((?:[^()]|\([^()]*\))*\)\s*;', ';', 0),
]


# ---------------------------------------------------------------- loop contracts

_kw = re.compile(r'\b(for|while|do)\b')


def find_loops(body):
    """Return list of insertion points (index just after the loop header's closing
    paren; for do-while after the trailing while(...)) in order of appearance of the
    loop keyword."""
    res = []
    skip_while_at = set()
    i = 0
    n = len(body)
    while i < n:
        s = _skip_noncode(body, i)
        if s is not None:
            i = s
            continue
        m = _kw.match(body, i)
        if m and (i == 0 or not (body[i - 1].isalnum() or body[i - 1] == '_')):
            kw = m.group(1)
            if kw in ('for', 'while'):
                if i in skip_while_at:
                    i = m.end()
                    continue
                op = find_code_char(body, '(', m.end())
                cp = find_matching(body, op)
                res.append((i, cp + 1))
                i = m.end()
                continue
            else:  # do
                ob = find_code_char(body, '{', m.end())
                cb = find_matching(body, ob)
                mw = re.compile(r'\s*while\b').match(body, cb + 1)
                if not mw:
                    raise ExtractionError('do without while')
                wstart = cb + 1 + (len(mw.group(0)) - len('while'))
                skip_while_at.add(wstart)
                op = find_code_char(body, '(', mw.end())
                cp = find_matching(body, op)
                res.append((i, cp + 1))
                i = m.end()
                continue
        i += 1
    res.sort()
    return [p for _, p in res]


def inject_loop_contracts(body, loops, what=''):
    """loops: dict ordinal -> contract text; the number of loops in body must equal
    loops['count'] when given."""
    pts = find_loops(body)
    want = loops.get('count')
    if want is not None and len(pts) != want:
        raise ExtractionError('%s: found %d loops, spec expects %d' % (what, len(pts), want))
    ins = []
    for k, v in loops.items():
        if k == 'count':
            continue
        if k >= len(pts):
            raise ExtractionError('%s: loop#%d not present' % (what, k))
        ins.append((pts[k], v))
    for p, v in sorted(ins, reverse=True):
        body = body[:p] + '\n' + v + '\n' + body[p:]
    return body


def inject_at(body, anchors, what=''):
    """anchors: list of (regex, text, 'before'|'after'); regex must match exactly once."""
    for pat, txt, pos in anchors:
        ms = list(re.finditer(pat, body, re.S))
        if len(ms) != 1:
            raise ExtractionError('%s: ghost anchor /%s/ matched %d times' % (what, pat, len(ms)))
        p = ms[0].start() if pos == 'before' else ms[0].end()
        body = body[:p] + ' ' + txt + ' ' + body[p:]
    return body


# ---------------------------------------------------------------- textual loop-rule instrumentation
# (used instead of goto-instrument's loop contracts where those are too slow / too restrictive; see DESIGN §3.2b)

def loop_spans(body):
    """For every for/while loop (in order of appearance) return a dict with the positions of the header's
    condition and of the loop body.  do-while loops are reported with kind 'do'."""
    res = []
    skip_while_at = set()
    i = 0
    n = len(body)
    while i < n:
        s = _skip_noncode(body, i)
        if s is not None:
            i = s
            continue
        m = _kw.match(body, i)
        if m and (i == 0 or not (body[i - 1].isalnum() or body[i - 1] == '_')):
            kw = m.group(1)
            if kw == 'while' and i in skip_while_at:
                i = m.end()
                continue
            if kw in ('for', 'while'):
                op = find_code_char(body, '(', m.end())
                cp = find_matching(body, op)
                if kw == 'while':
                    cs, ce = op + 1, cp
                else:
                    s1 = find_code_char(body, ';', op + 1)
                    # second semicolon at nesting depth 0 inside the header
                    depth = 0
                    s2 = -1
                    k = s1 + 1
                    while k < cp:
                        sk = _skip_noncode(body, k)
                        if sk is not None:
                            k = sk
                            continue
                        if body[k] in '([{':
                            depth += 1
                        elif body[k] in ')]}':
                            depth -= 1
                        elif body[k] == ';' and depth == 0:
                            s2 = k
                            break
                        k += 1
                    if s1 < 0 or s2 < 0:
                        raise ExtractionError('cannot parse for header')
                    cs, ce = s1 + 1, s2
                # body: next non-space char
                k = cp + 1
                while k < n and body[k].isspace():
                    k += 1
                if body[k] == '{':
                    bs, be = k, find_matching(body, k) + 1
                else:
                    be = find_code_char(body, ';', k) + 1
                    bs = k
                res.append(dict(kind=kw, kw=i, cond=(cs, ce), body=(bs, be)))
                i = m.end()
                continue
            else:
                ob = find_code_char(body, '{', m.end())
                cb = find_matching(body, ob)
                mw = re.compile(r'\s*while\b').match(body, cb + 1)
                if not mw:
                    raise ExtractionError('do without while')
                wstart = cb + 1 + (len(mw.group(0)) - len('while'))
                skip_while_at.add(wstart)
                op = find_code_char(body, '(', mw.end())
                cp = find_matching(body, op)
                res.append(dict(kind='do', kw=i, cond=(op + 1, cp), body=(ob, cb + 1)))
                i = m.end()
                continue
        i += 1
    res.sort(key=lambda d: d['kw'])
    return res


_ASSIGN_RE = re.compile(r'(?<![=!<>+\-*/%&|^])\b([A-Za-z_]\w*)((?:\s*(?:->|\.)\s*\w+|\s*\[[^\]]*\])*)\s*(?:[-+*/%&|^]|<<|>>)?=(?!=)')
_INCDEC_RE = re.compile(r'(?:\+\+|--)\s*\(?\*?\s*([A-Za-z_]\w*)|([A-Za-z_]\w*)((?:\s*(?:->|\.)\s*\w+|\s*\[[^\]]*\])*)\s*(?:\+\+|--)')
_DECL_RE = re.compile(r'\b(?:__auto_type|struct\s+\w+\s*\*?|unsigned\s+\w+|const\s+\w+\s*\*?|\w+_t\s*\*?|int|char\s*\*?|bool|void\s*\*|long|size_t)\s+\*?([A-Za-z_]\w*)\s*(?:=|;|\[)')
_CALL_RE = re.compile(r'\b([A-Za-z_]\w*)\s*\(')
_NOT_CALLS = {'if', 'while', 'for', 'switch', 'return', 'sizeof', '__CPROVER_assume', '__CPROVER_assert', 'PRE_STEP'}


def loop_frame(body_text):
    """Roots of the lvalues textually assigned in a loop body, the identifiers declared in it, and the functions
    it calls."""
    txt = strip_comments(body_text)
    roots = set()
    through = set()       # roots written through (p->f = .., p[i] = .., *p = ..)
    for m in _ASSIGN_RE.finditer(txt):
        roots.add(m.group(1))
        if m.group(2).strip():
            through.add(m.group(1))
    for m in _INCDEC_RE.finditer(txt):
        roots.add(m.group(1) or m.group(2))
        if m.group(3) and m.group(3).strip():
            through.add(m.group(2))
    for m in re.finditer(r'(?:^|[;{}(,=])\s*\*\s*(?:--|\+\+)?\s*([A-Za-z_]\w*)\s*(?:[-+*/%&|^]|<<|>>)?=(?!=)', txt):
        roots.add(m.group(1))
        through.add(m.group(1))
    decls = set()
    for m in _DECL_RE.finditer(txt):
        decls.add(m.group(1))
        # further declarators of the same declaration: `T a = x, b = y;`
        k = m.end()
        depth = 0
        while k < len(txt) and not (txt[k] == ';' and depth == 0):
            if txt[k] in '([{':
                depth += 1
            elif txt[k] in ')]}':
                depth -= 1
            elif txt[k] == ',' and depth == 0:
                m2 = re.match(r'\s*\*?\s*([A-Za-z_]\w*)\s*(?:=|,|;|\[)', txt[k + 1:])
                if m2:
                    decls.add(m2.group(1))
            k += 1
    calls = set(m.group(1) for m in _CALL_RE.finditer(txt)) - _NOT_CALLS
    return roots, decls, calls, through


def mark_loops(body, marks, what=''):
    """marks: dict ordinal -> dict(name=..., frame=[roots that may be modified], effects={callee: [roots]},
    pure=[callees without side effects]); optional key 'count'.
    Rewrites the loop condition to `LOOPHEAD_<name> && (cond)` and checks the loop's textual frame."""
    spans = loop_spans(body)
    want = marks.get('count')
    if want is not None and len(spans) == 0 and want > 0:
        # every marked loop is gone (e.g. a retry loop replaced by straight-line code): nothing to instantiate the loop rule
        # on; the straight-line text is verified as /repo has it
        return body
    if want is not None and len(spans) != want:
        raise ExtractionError('%s: found %d loops, spec expects %d' % (what, len(spans), want))
    edits = []
    for k, mk in marks.items():
        if k == 'count':
            continue
        if k >= len(spans):
            raise ExtractionError('%s: loop#%d not present' % (what, k))
        sp = spans[k]
        if sp['kind'] == 'do':
            # do BODY while (C);  ==>  do { (void)LOOPHEAD; BODY } while (C);
            btxt = body[sp['body'][0]:sp['body'][1]]
            ctxt = body[sp['cond'][0]:sp['cond'][1]]
            roots, decls, calls, through = loop_frame(btxt + ' ; ' + ctxt + ';')
            frame = set(mk.get('frame', []))
            eff = mk.get('effects', {})
            pure = set(mk.get('pure', []))
            ptr_targets = mk.get('ptr_targets', {})
            for r_ in sorted(through & decls):
                if r_ not in ptr_targets:
                    raise ExtractionError('%s: loop#%d writes through local pointer %s' % (what, k, r_))
                roots |= set(ptr_targets[r_])
            for c in calls:
                if c in eff:
                    roots |= set(eff[c])
                elif c not in pure:
                    raise ExtractionError('%s: loop#%d calls %s(), whose effects the spec does not declare' % (what, k, c))
            extra = roots - decls - frame
            if extra:
                raise ExtractionError('%s: loop#%d assigns %s, not in the declared frame %s' % (what, k, sorted(extra), sorted(frame)))
            # the invariant is attached to the START of the body: first arrival = base + arbitrary iteration, the condition
            # (which may have side effects) is evaluated after the body, leading back here (step) or out of the loop (exit)
            ob_ = sp['body'][0]
            edits.append((ob_ + 1, ob_ + 1, ' (void)LOOPHEAD_%s; ' % mk['name']))
            continue
        btxt = body[sp['body'][0]:sp['body'][1]]
        ctxt = body[sp['cond'][0]:sp['cond'][1]]
        hdr = body[sp['kw']:sp['body'][0]]
        roots, decls, calls, through = loop_frame(btxt + ' ; ' + hdr[hdr.find('(') + 1:])
        frame = set(mk.get('frame', []))
        ptr_targets = mk.get('ptr_targets', {})
        for r_ in sorted(through & decls):
            if r_ not in ptr_targets:
                raise ExtractionError('%s: loop#%d writes through local pointer %s; the spec does not say what it '
                                      'may point to' % (what, k, r_))
            roots |= set(ptr_targets[r_])
        eff = mk.get('effects', {})
        pure = set(mk.get('pure', []))
        for c in calls:
            if c in eff:
                roots |= set(eff[c])
            elif c not in pure:
                raise ExtractionError('%s: loop#%d calls %s(), whose effects the spec does not declare' % (what, k, c))
        extra = roots - decls - frame
        if extra:
            raise ExtractionError('%s: loop#%d assigns %s, not in the declared frame %s'
                                  % (what, k, sorted(extra), sorted(frame)))
        cond = ctxt.strip() or '1'
        edits.append((sp['cond'][0], sp['cond'][1], ' LOOPHEAD_%s && (%s) ' % (mk['name'], cond)))
    for s, e, t in sorted(edits, reverse=True):
        body = body[:s] + t + body[e:]
    return body


# ---------------------------------------------------------------- DEFER / SCOPED_LOCK lowering
def lower_refs(body, what=''):
    """`auto& NAME = EXPR;`  ->  `__auto_type NAME_p_ = &(EXPR);` and every later use of NAME in the enclosing block becomes
    `(*NAME_p_)`: a C++ reference to an lvalue is an alias; the pointer keeps the aliasing (writes through it reach EXPR's object)."""
    pat = re.compile(r'\b(?:const\s+)?auto\s*&\s*([A-Za-z_]\w*)\s*=\s*([^;]+);')
    while True:
        m = pat.search(body)
        if not m:
            return body
        name, expr = m.group(1), m.group(2).strip()
        # enclosing block end
        depth = 0
        i = m.end()
        end = len(body)
        while i < len(body):
            c = body[i]
            if c == '{':
                depth += 1
            elif c == '}':
                if depth == 0:
                    end = i
                    break
                depth -= 1
            i += 1
        rest = body[m.end():end]
        rest = re.sub(r'(?<![\w.>])%s\b' % re.escape(name), '(*%s_p_)' % name, rest)
        body = body[:m.start()] + '__auto_type %s_p_ = &(%s);' % (name, expr) + rest + body[end:]


def lower_block_scoped(body, items, rettype='void', what=''):
    """Mechanical lowering of a C++ scoped object declared INSIDE a nested block (typically a loop body):
    items = [(decl_regex, ctor_text, dtor_text)].  `decl_regex` matches the declaration statement (groups usable in the
    texts as \\1...).  The destructor text is inserted
      - before every `break;` / `continue;` that lies in the rest of the enclosing block and is not inside a deeper loop
        (break inside a deeper `switch` is also left alone),
      - before every `return` in the rest of the block (`return E;` -> `{ rettype r__ = (E); dtor; return r__; }`),
      - at the end of the enclosing block.
    A `goto` in the rest of the block raises ExtractionError."""
    for decl_re, ctor, dtor in items:
        while True:
            m = re.search(decl_re, body, re.S)
            if not m:
                break
            ctor_t = m.expand(ctor)
            dtor_t = m.expand(dtor)
            # innermost enclosing block
            depth = 0
            ob = -1
            i = m.start() - 1
            while i >= 0:
                c = body[i]
                if c == '}':
                    depth += 1
                elif c == '{':
                    if depth == 0:
                        ob = i
                        break
                    depth -= 1
                i -= 1
            if ob < 0:
                raise ExtractionError('%s: no enclosing block for scoped object /%s/' % (what, decl_re))
            cb = find_matching(body, ob)
            rest = body[m.end():cb]
            if re.search(r'\bgoto\b', rest):
                raise ExtractionError('%s: goto inside the scope of /%s/ is not supported by the lowering' % (what, decl_re))
            inner = []
            for sp in loop_spans(rest):
                inner.append((sp['kw'], sp['body'][1] + 1, sp['kind']))
            sw = []
            for ms in re.finditer(r'\bswitch\s*\(', rest):
                cp_ = find_matching(rest, rest.index('(', ms.start()))
                ob_ = find_code_char(rest, '{', cp_)
                sw.append((ms.start(), find_matching(rest, ob_) + 1))
            edits = []
            for mj in re.finditer(r'\b(break|continue)\s*;', rest):
                p_ = mj.start()
                if any(a <= p_ < b for a, b, _ in inner):
                    continue
                if mj.group(1) == 'break' and any(a <= p_ < b for a, b in sw):
                    continue
                edits.append((mj.start(), mj.end(), '{ %s %s; }' % (dtor_t, mj.group(1))))
            for mr in re.finditer(r'\breturn\b\s*([^;]*);', rest):
                e = mr.group(1).strip()
                if e:
                    edits.append((mr.start(), mr.end(), '{ %s r__ = (%s); %s return r__; }' % (rettype, e, dtor_t)))
                else:
                    edits.append((mr.start(), mr.end(), '{ %s return; }' % dtor_t))
            for a, b, t in sorted(edits, reverse=True):
                rest = rest[:a] + t + rest[b:]
            body = body[:m.start()] + ctor_t + rest + ' ' + dtor_t + ' ' + body[cb:]
    return body


def lower_defers(body, rettype='int', scoped_lock=None, what=''):
    """Mechanical lowering of photon's DEFER(expr); (run expr when the enclosing scope exits) for DEFERs that
    appear at FUNCTION scope: every `return X;` becomes `{ ret_ = X; goto exit_; }` and the function ends with
    `exit_:` followed by the registered actions in reverse order of registration.  SCOPED_LOCK(x); at function scope is
    `lock(x); DEFER(unlock(x));` (scoped_lock = (lock_fmt, unlock_fmt) with {0} for the argument).
    A DEFER / SCOPED_LOCK inside a nested block raises ExtractionError (not supported)."""
    assert body.lstrip().startswith('{')
    items = []   # (start, end, register_text, action_text)
    pat = re.compile(r'\b(DEFER|SCOPED_LOCK)\s*\(')
    i = 0
    while True:
        m = pat.search(body, i)
        if not m:
            break
        op = body.index('(', m.start())
        cp = find_matching(body, op)
        semi = find_code_char(body, ';', cp)
        depth = body.count('{', 0, m.start()) - body.count('}', 0, m.start())
        if depth != 1:
            raise ExtractionError('%s: %s inside a nested block is not supported by the lowering' % (what, m.group(1)))
        arg = body[op + 1:cp].strip()
        k = len(items)
        if m.group(1) == 'DEFER':
            items.append((m.start(), semi + 1, 'd_%d_ = 1;' % k, arg + ';'))
        else:
            if not scoped_lock:
                raise ExtractionError('%s: SCOPED_LOCK needs lock/unlock formats' % what)
            a0 = arg.split(',')[0].strip()
            items.append((m.start(), semi + 1, scoped_lock[0].format(a0) + '; d_%d_ = 1;' % k, scoped_lock[1].format(a0) + ';'))
        i = semi + 1
    if not items:
        return body
    for s, e, reg, act in sorted(items, reverse=True):
        body = body[:s] + reg + body[e:]
    void = rettype.strip() == 'void'
    if void:
        body = re.sub(r'\breturn\s*;', '{ goto exit_; }', body)
    else:
        body = re.sub(r'\breturn\b\s*([^;]+);', r'{ ret_ = (\1); goto exit_; }', body)
    ob = body.index('{')
    decl = ('' if void else rettype + ' ret_; ') + 'int ' + ', '.join('d_%d_ = 0' % k for k in range(len(items))) + ';'
    cb = body.rindex('}')
    tail = ' exit_: ' + ' '.join('if (d_%d_) { %s }' % (k, items[k][3]) for k in reversed(range(len(items)))) + \
           (' return;' if void else ' return ret_;') + ' '
    return body[:ob + 1] + ' ' + decl + body[ob + 1:cb] + tail + body[cb:]


def init_list_statements(sig, what=''):
    """`Ctor(params) : a(e1), b(e2)`  ->  'this->a = (e1); this->b = (e2);'  (member-initialiser list of a constructor)."""
    sig = strip_comments(sig)
    op = find_code_char(sig, '(', 0)
    cp = find_matching(sig, op)
    colon = find_code_char(sig, ':', cp)
    if colon < 0:
        raise ExtractionError('%s: constructor without initialiser list' % what)
    rest = sig[colon + 1:]
    out = []
    i = 0
    while i < len(rest):
        m = re.compile(r'\s*([A-Za-z_]\w*)\s*\(').match(rest, i)
        if not m:
            break
        o = m.end() - 1
        c = find_matching(rest, o)
        out.append('this->%s = (%s);' % (m.group(1), rest[o + 1:c].strip()))
        i = c + 1
        m2 = re.compile(r'\s*,').match(rest, i)
        if m2:
            i = m2.end()
        else:
            break
    if not out:
        raise ExtractionError('%s: empty initialiser list' % what)
    return ' '.join(out)
