"""Spec-side API: what a specs/<ID>/spec.py declares."""


class Target:
    """A function (or region) of /repo that is extracted and lowered on every run."""

    def __init__(self, name, file, locate, rules=(), loops=None, ghost=(), index=0, count=1,
                 common=True, region_end=None, note='', marks=None, defers=None, pre_rules=(), init_list=False, scoped=None, refs=False):
        self.refs = refs              # lower `auto& x = e;` to a pointer alias (engine.extract.lower_refs)
        self.scoped = scoped          # dict(items=[(decl_regex, ctor, dtor)], rettype=...): scoped objects declared in nested blocks
        self.name = name
        self.file = file
        self.locate = locate
        self.rules = list(rules)
        self.loops = loops or {}
        self.ghost = list(ghost)      # (anchor regex, text, 'before'|'after')
        self.index = index
        self.count = count
        self.common = common
        self.init_list = init_list    # constructor: turn the member-initialiser list `m(e), ...` into `this->m = (e);` statements
        self.pre_rules = list(pre_rules)   # rules applied before the DEFER lowering
        self.defers = defers          # dict(rettype=..., scoped_lock=(lock_fmt, unlock_fmt)) -> engine.extract.lower_defers
        self.marks = marks or {}      # textual loop-rule instrumentation (engine.extract.mark_loops)
        self.region_end = region_end  # if set: extract_region(locate, region_end)
        self.note = note


class Proof:
    """One verifier run.

    kind: 'U' unbounded contract proof (dfcc, loop contracts)  -> counted as proved
          'L' loop-free lemma / loop-free full-domain harness (plain cbmc) -> counted as proved
          'B' bounded stand-in (unwind + unwinding assertions)    -> reported as bounded
    """

    def __init__(self, name, unit, harness, enforce=None, replace=(), kind='U',
                 loop_contracts=True, flags=(), backend='sat', timeout=1800, defines=(),
                 unwind=None, unwindset=None, tier='quick', bound='', checks=None, min_obligations=1,
                 canaries=1, object_bits=None, expect_loops=0, cex_for=(), mem_gb=8, no_dfcc=False, aux_violation=False):
        self.aux_violation = aux_violation   # no native/bounded oracle covers this kernel: a failed inductive obligation is reported
        self.name = name
        self.unit = unit
        self.harness = harness
        self.enforce = enforce
        self.replace = list(replace)
        self.kind = kind
        self.loop_contracts = loop_contracts
        self.flags = list(flags)
        self.backend = backend
        self.timeout = timeout
        self.defines = list(defines)
        self.unwind = unwind
        self.unwindset = unwindset
        self.tier = tier
        self.bound = bound            # human-readable bound for kind B
        self.checks = checks          # override default cbmc check flags
        self.min_obligations = min_obligations
        self.canaries = canaries      # number of CANARY assertions that must FAIL
        self.object_bits = object_bits
        self.expect_loops = expect_loops
        self.cex_for = list(cex_for)  # names of U proofs for which this B proof supplies counterexamples
        self.mem_gb = mem_gb
        self.no_dfcc = no_dfcc or kind == 'L' or (enforce is None and not self.replace)


class Native:
    """A native C++ program built against the real /repo sources.

    kind 'validate': run on every check (differential run: real code vs oracle / lowered C);
                     must print 'OK <n-cases>' and exit 0.  On exit 3 it must print one line
                     'CEX {json}' describing a concrete input on which the REAL code violates
                     the oracle.
    The same binary is used for --replay: `<bin> --replay <file>` prints REPRODUCED /
    NOT-REPRODUCED."""

    def __init__(self, name, src, extra_src=(), cxxflags=(), ldflags=(), args_quick=(), args_thorough=(),
                 timeout=600, lowered_units=(), link_photon=False):
        self.name = name
        self.src = src
        self.extra_src = list(extra_src)
        self.cxxflags = list(cxxflags)
        self.ldflags = list(ldflags)
        self.args_quick = list(args_quick)
        self.args_thorough = list(args_thorough)
        self.timeout = timeout
        self.lowered_units = list(lowered_units)   # generated C units compiled with gcc and linked in
        self.link_photon = link_photon
