from engine.api import Target, Proof, Native
from engine.extract import fields_rule

ID = 'C14'
LEVEL = 'proof'
CPP = 'common/iovector.cpp'
HDR = 'common/iovector.h'
F = fields_rule(['iov', 'iovcnt'])
VIEW_EFFECTS = {'iovv_pop_front': ['this'], 'iovv_pop_back': ['this']}
PURE = ['iovv_empty', 'iovv_front', 'iovv_back']
CB_EFFECTS = {'CB': ['buf', 'ctx', 'OUTS', 'OBS_HITS', 'CUR_ELEM']}

TARGETS = [
    Target('v_empty', HDR, r'bool empty\(\)     (?=\{)', rules=[F]),
    Target('v_front', HDR, r'iovec& front\(\)   ', rules=[(r'return \*iov;', 'return &(*this->iov);', 1)]),
    Target('v_back', HDR, r'iovec& back\(\)    ', rules=[(r'return iov\[iovcnt - 1\];', 'return &(this->iov[this->iovcnt - 1]);', 1)]),
    Target('v_pop_front', HDR, r'void pop_front\(\) ', rules=[F]),
    Target('v_pop_back', HDR, r'void pop_back\(\)  ', rules=[F]),
    Target('sum', CPP, r'size_t iovector_view::sum\(\) const', rules=[
        fields_rule(['iov', 'iovcnt'], min_fires=2),
        (r's \+= (this->iov\[i\]\.iov_len);', r'{ PRE_STEP(i, \1); s += \1; }', 1)],
        marks={'count': 1, 0: dict(name='SUM', frame=['i', 's'])}),
    Target('shrink_to', CPP, r'size_t iovector_view::shrink_to\(size_t size\)', rules=[
        fields_rule(['iov', 'iovcnt'], min_fires=6),
        (r'\{\s*if \(size <= ', '{ PRE_STEP(i, this->iov[i].iov_len); if (size <= ', 1),
        (r'return size0;', 'G_J = i; return size0;', 1)],
        marks={'count': 1, 0: dict(name='SHRINK', frame=['i', 'size', 'this', 'G_J'])}),
    Target('do_extract_front', CPP, r'ssize_t do_extract_front\(size_t bytes, const CB& cb\)', rules=[
        (r'(?<![\w>.])empty\(\)', 'iovv_empty(this)', 1),
        (r'auto& v = front\(\);', 'XF_TOP struct iovec *v = iovv_front(this);', 1),
        (r'\bv\.', 'v->', 8),
        (r'\(char\*&\)(v->iov_base) \+= (\w+);', r'\1 = (char*)\1 + \2;', 1),
        (r'(?<![\w>.])pop_front\(\)', 'iovv_pop_front(this)', 2),
        (r'(?<![\w>.])cb\(', 'CB(', 2),
        (r'return bytes0 - bytes;', 'G_J = N0 - this->iovcnt; return bytes0 - bytes;', 1)],
        marks={'count': 1, 0: dict(name='XF', frame=['bytes', 'this', 'ARRS', 'buf', 'ctx', 'OUTS', 'OBS_HITS', 'CUR_ELEM'],
                                   effects=dict(VIEW_EFFECTS, **CB_EFFECTS), pure=PURE,
                                   ptr_targets={'v': ['ARRS']})}),
    # the three lambdas passed to do_extract_front, and the wrappers that build them
    Target('cb_front_copy', CPP, r'\[&\]\(void\* ptr, size_t size\) __INLINE__', index=0, count=4, rules=[
        (r'\bbuf\b', '(*buf)', 2), (r'\bmemcpy\(', 'memcpy_(', 1),
        (r'\(char\*&\)(\(\*buf\)) \+= (\w+);', r'\1 = (char*)\1 + \2;', 1)]),
    Target('extract_front_copy', CPP, r'size_t iovector_view::extract_front\(size_t bytes, void\* buf\)', rules=[
        (r'_this->do_extract_front\(bytes, \[&\].*\}\);', 'do_extract_front_copy(this, bytes, &buf);', 1)]),
    Target('cb_front_iov', CPP, r'\[&\]\(void\* ptr, size_t size\) __INLINE__', index=1, count=4, rules=[
        (r'\biov->', 'c->iov->', 3), (r'== N\)', '== c->N)', 1), (r'= \{ptr, size\}', '= (struct iovec){ptr, size}', 1)]),
    Target('extract_front_iov', CPP, r'ssize_t iovector_view::extract_front\(size_t bytes, iovector_view\* iov\)', rules=[
        (r'_this->do_extract_front\(bytes, \[&\].*\}\);', 'do_extract_front_iov(this, bytes, &ctx_);', 1),
        (r'iov->iovcnt = 0;', 'iov->iovcnt = 0; struct cbiov ctx_ = { iov, N };', 1)]),
]

UNITS = {'iov.c': 'iov.c.in'}
# element bases are abstract addresses (the buffers they describe are not modelled as objects), so pointer-overflow
# checks on address arithmetic over them are off; array bounds / dereference / integer checks stay on
CHECKS = ['--no-standard-checks', '--bounds-check', '--pointer-check', '--div-by-zero-check', '--signed-overflow-check',
          '--undefined-shift-check']
CV = dict(backend='cvc5', timeout=900, checks=CHECKS)
PROOFS = [
    Proof('sum', 'iov.c', 'h_sum', kind='L', min_obligations=10, **CV),
    Proof('shrink_to', 'iov.c', 'h_shrink_to', kind='L', min_obligations=10, **CV),
    Proof('extract_front/discard', 'iov.c', 'h_extract_front_discard', kind='L', min_obligations=10, **CV),
    Proof('extract_front/copy', 'iov.c', 'h_extract_front_copy', kind='L', min_obligations=10, **CV),
    Proof('extract_front/iov', 'iov.c', 'h_extract_front_iov', kind='L', min_obligations=10, **CV),
]
NATIVES = []
TRUSTED = ['cbmc 6.11.0', 'lowering rules of specs/C14/spec.py']
NOT_DECIDED = []
ASSUMPTIONS = []
