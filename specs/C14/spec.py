from engine.api import Target, Proof, Native
from engine.extract import fields_rule

ID = 'C14'
LEVEL = 'proof'
CPP = 'common/iovector.cpp'
HDR = 'common/iovector.h'
F = fields_rule(['iov', 'iovcnt'])
VIEW_EFFECTS = {'iovv_pop_front': ['this'], 'iovv_pop_back': ['this']}
PURE = ['iovv_empty', 'iovv_front', 'iovv_back']
CB_EFFECTS = {'CB': ['buf', 'ctx', 'OUTS', 'OBS_HITS', 'CUR_ELEM']}

TARGETS = [
    Target('v_empty', HDR, r'bool empty\(\)     (?=\{)', rules=[F]),
    Target('v_front', HDR, r'iovec& front\(\)   ', rules=[(r'return \*iov;', 'return &(*this->iov);', 1)]),
    Target('v_back', HDR, r'iovec& back\(\)    ', rules=[(r'return iov\[iovcnt - 1\];', 'return &(this->iov[this->iovcnt - 1]);', 1)]),
    Target('v_pop_front', HDR, r'void pop_front\(\) ', rules=[F]),
    Target('v_pop_back', HDR, r'void pop_back\(\)  ', rules=[F]),
    Target('sum', CPP, r'size_t iovector_view::sum\(\) const', rules=[
        fields_rule(['iov', 'iovcnt'], min_fires=2),
        (r's \+= (this->iov\[i\]\.iov_len);', r'{ PRE_STEP(i, \1); s += \1; }', 1)],
        marks={'count': 1, 0: dict(name='SUM', frame=['i', 's'])}),
    Target('shrink_to', CPP, r'size_t iovector_view::shrink_to\(size_t size\)', rules=[
        fields_rule(['iov', 'iovcnt'], min_fires=6),
        (r'\{\s*if \(size <= ', '{ PRE_STEP(i, this->iov[i].iov_len); if (size <= ', 1),
        (r'return size0;', 'G_J = i; return size0;', 1)],
        marks={'count': 1, 0: dict(name='SHRINK', frame=['i', 'size', 'this', 'G_J'])}),
    Target('do_extract_front', CPP, r'ssize_t do_extract_front\(size_t bytes, const CB& cb\)', rules=[
        (r'(?<![\w>.])empty\(\)', 'iovv_empty(this)', 1),
        (r'auto& v = front\(\);', 'XF_TOP struct iovec *v = iovv_front(this);', 1),
        (r'\bv\.', 'v->', 1),
        (r'\(char\*&\)(v->iov_base) \+= (\w+);', r'\1 = (char*)\1 + \2;', 1),
        (r'(?<![\w>.])pop_front\(\)', 'iovv_pop_front(this)', 2),
        (r'(?<![\w>.])cb\(', 'CB(', 2),
        (r'return bytes0 - bytes;', 'G_J = N0 - this->iovcnt; return bytes0 - bytes;', 1)],
        marks={'count': 1, 0: dict(name='XF', frame=['bytes', 'this', 'ARRS', 'buf', 'ctx', 'OUTS', 'OBS_HITS', 'CUR_ELEM'],
                                   effects=dict(VIEW_EFFECTS, **CB_EFFECTS), pure=PURE,
                                   ptr_targets={'v': ['ARRS']})}),
    # the three lambdas passed to do_extract_front, and the wrappers that build them
    Target('cb_front_copy', CPP, r'\[&\]\(void\* ptr, size_t size\) __INLINE__', index=0, count=4, rules=[
        (r'\bbuf\b', '(*buf)', 2), (r'\bmemcpy\(', 'memcpy_(', 1),
        (r'\(char\*&\)(\(\*buf\)) \+= (\w+);', r'\1 = (char*)\1 + \2;', 1)]),
    Target('extract_front_copy', CPP, r'size_t iovector_view::extract_front\(size_t bytes, void\* buf\)', rules=[
        (r'_this->do_extract_front\(bytes, \[&\].*\}\);', 'do_extract_front_copy(this, bytes, &buf);', 1)]),
    Target('cb_front_iov', CPP, r'\[&\]\(void\* ptr, size_t size\) __INLINE__', index=1, count=4, rules=[
        (r'\biov->', 'c->iov->', 3), (r'== N\)', '== c->N)', 1), (r'= \{ptr, size\}', '= (struct iovec){ptr, size}', 1)]),
    Target('extract_front_iov', CPP, r'ssize_t iovector_view::extract_front\(size_t bytes, iovector_view\* iov\)', rules=[
        (r'_this->do_extract_front\(bytes, \[&\].*\}\);', 'do_extract_front_iov(this, bytes, &ctx_);', 1),
        (r'iov->iovcnt = 0;', 'iov->iovcnt = 0; struct cbiov ctx_ = { iov, N };', 1)]),
    Target('do_extract_back', CPP, r'ssize_t do_extract_back\(size_t bytes, const CB& cb\)', rules=[
        (r'(?<![\w>.])empty\(\)', 'iovv_empty(this)', 1),
        (r'auto& v = back\(\);', 'XB_TOP struct iovec *v = iovv_back(this);', 1),
        (r'\bv\.', 'v->', 1),
        (r'(?<![\w>.])pop_back\(\)', 'iovv_pop_back(this)', 2),
        (r'(?<![\w>.])cb\(', 'CB(', 2),
        (r'return bytes0 - bytes;', 'G_J = this->iovcnt; return bytes0 - bytes;', 1)],
        marks={'count': 1, 0: dict(name='XB', frame=['bytes', 'this', 'ARRS', 'buf', 'ctx', 'OUTS', 'OBS_HITS', 'CUR_ELEM'],
                                   effects=dict(VIEW_EFFECTS, **CB_EFFECTS), pure=PURE, ptr_targets={'v': ['ARRS']})}),
    Target('cb_back_copy', CPP, r'\[&\]\(void\* ptr, size_t size\) __INLINE__', index=2, count=4, rules=[
        (r'\bbuf\b', '(*buf)', 2), (r'\bmemcpy\(', 'memcpy_(', 1),
        (r'\(char\*&\)(\(\*buf\)) -= (\w+);', r'\1 = (char*)\1 - \2;', 1)]),
    Target('extract_back_copy', CPP, r'size_t iovector_view::extract_back\(size_t bytes, void\* buf\)', rules=[
        (r'\(char\*&\)buf \+= bytes;', 'buf = (char*)buf + bytes;', 1),
        (r'_this->do_extract_back\(bytes, \[&\].*\}\);', 'do_extract_back_copy(this, bytes, &buf);', 1)]),
    Target('cb_back_iov', CPP, r'\[&\]\(void\* ptr, size_t size\) __INLINE__', index=3, count=4, rules=[
        (r'\bbegin\b', '(*c->begin)', 2), (r'\biov->', 'c->iov->', 1), (r'= \{ptr, size\}', '= (struct iovec){ptr, size}', 1)]),
    Target('extract_back_iov', CPP, r'ssize_t iovector_view::extract_back\(size_t bytes, iovector_view\* iov\)', rules=[
        (r'_this->do_extract_back\(bytes, \[&\].*\}\);', 'do_extract_back_iov(this, bytes, &ctx_);', 1),
        (r'iov->iovcnt = 0;', 'iov->iovcnt = 0; struct cbbiov ctx_ = { iov, &begin };', 1)]),
    Target('extract_front_continuous', HDR, r'void\* extract_front_continuous\(size_t bytes\)', index=0, count=2, rules=[
        (r'auto& f = front\(\);', 'struct iovec *f = iovv_front(this);', 1), (r'\bf\.', 'f->', 5),
        (r'(?<![\w>.])empty\(\)', 'iovv_empty(this)', 1), (r'(?<![\w>.])pop_front\(\)', 'iovv_pop_front(this)', 1),
        (r'\(char\*&\)(f->iov_base) \+= (\w+);', r'\1 = (char*)\1 + \2;', 1)]),
    Target('extract_back_continuous', HDR, r'void\* extract_back_continuous\(size_t bytes\)', index=0, count=2, rules=[
        (r'auto& b = back\(\);', 'struct iovec *b = iovv_back(this);', 1), (r'\bb\.', 'b->', 5),
        (r'(?<![\w>.])empty\(\)', 'iovv_empty(this)', 1), (r'(?<![\w>.])pop_back\(\)', 'iovv_pop_back(this)', 1)]),
    # ---- iov_iterator and _copy_pipe_iov
    Target('iovec_pluseq', CPP, r'inline void operator\+=\(iovec& v, size_t nbytes\)', rules=[
        (r'\(char\*&\)v\.iov_base \+= nbytes;', 'v->iov_base = (char*)v->iov_base + nbytes;', 1), (r'\bv\.', 'v->', 1)]),
    Target('it_ctor', CPP, r'iov_iterator\(iovector_view v\)\s*(?=:)', init_list=True, rules=[
        (r'v\.iov\[0\]', 'IOV_RD(v, 0)', 1), (r'iovec\{nullptr, 0\}', '(struct iovec){0, 0}', 0), (r'iovec\{\}', '(struct iovec){0, 0}', 0), (r'\biovec\(\)', '(struct iovec){0, 0}', 0)]),
    Target('it_empty', CPP, r'bool empty\(\) const (?=\{ return _iovcnt == 0; \})', rules=[fields_rule(['_iovcnt'])]),
    Target('it_front', CPP, r'iovec front\(\) const (?=\{ return _v; \})', rules=[fields_rule(['_v'])]),
    Target('it_pluseq', CPP, r'iov_iterator& operator \+= \(size_t n\)', rules=[
        fields_rule(['_iovcnt', '_v', '_iov'], min_fires=6),
        (r'this->_v \+= n;', 'iovec_advance(&this->_v, n);', 1),
        (r'this->_v = \{\};', 'this->_v = (struct iovec){0, 0};', 1),
        (r'return \*this;', 'return;', 1)]),
    Target('min3', CPP, r'inline size_t min\(size_t a, size_t b, size_t c\)', rules=[(r'std::min', 'std_min', 2)]),
    Target('copy_pipe', CPP, r'size_t _copy_pipe_iov\(T&& dest, P&& src, size_t size\)', rules=[
        (r'!dest\.empty\(\)', '!D_EMPTY(dest)', 1), (r'!src\.empty\(\)', '!S_EMPTY(src)', 1),
        (r'__auto_type df = dest\.front\(\), sf = src\.front\(\);', 'CP_TOP struct iovec df = D_FRONT(dest), sf = S_FRONT(src);', 1),
        (r'(?<![\w.])min\(', 'min3(', 1),
        (r'\bmemcpy\((.*?)\);', r'memcpy2_(\1, dest, src);', 1),
        (r'dest \+= stepsize;', 'D_ADVANCE(dest, stepsize);', 1), (r'src \+= stepsize;', 'S_ADVANCE(src, stepsize);', 1)],
        marks={'count': 1, 0: dict(name='CP', frame=['size', 'dest', 'src', 'OBS_HITS', 'CP_DONE', 'SARR', 'S_OFF_G'],
               effects={'D_ADVANCE': ['dest'], 'S_ADVANCE': ['src', 'SARR', 'S_OFF_G'], 'memcpy2_': ['OBS_HITS'], 'DS_STEP': []},
               pure=['D_EMPTY', 'S_EMPTY', 'D_FRONT', 'S_FRONT', 'min3'])}),
    Target('memcpy_iov', CPP, r'size_t iovector_view::memcpy_iov\(iovector_view d, iovector_view s, size_t size\)', rules=[
        (r'return _copy_pipe_iov\(iov_iterator\(d\), iov_iterator\(s\), size\);',
         '{ struct iov_iterator di_, si_; iovit_ctor(&di_, d); iovit_ctor(&si_, s); return copy_pipe_iov_it_it(&di_, &si_, size); }', 1)]),
    Target('srcx_pluseq', CPP, r'void operator\+=\(size_t n\) (?=\{\s*assert\(!this->empty\(\)\);)', rules=[
        (r'__auto_type& v = this->front\(\);|auto& v = this->front\(\);', 'struct iovec *v = iovv_front(this);', 1), (r'\bv\.iov_len', 'v->iov_len', 1),
        (r'\bv \+= n;', 'iovec_advance(v, n);', 1), (r'this->pop_front\(\)', 'iovv_pop_front(this)', 1)]),
    Target('pipe_iov', CPP, r'size_t iovector_view::pipe_iov\(iovector_view d, iovector_view& src, size_t size\)', rules=[
        (r'return _copy_pipe_iov\(iov_iterator\(d\), \(src_extractor<iovector_view>&&\)src, size\);',
         '{ struct iov_iterator di_; iovit_ctor(&di_, d); return copy_pipe_iov_it_view(&di_, src, size); }', 1)]),
    Target('slice', CPP, r'ssize_t iovector_view::slice\(size_t count, off_t offset, iovector_view\* /\*OUT\*/ iov\) const', rules=[
        (r'__auto_type it = begin\(\);', 'const struct iovec *it = iovv_cbegin(this);', 1), (r'__auto_type e = end\(\);', 'const struct iovec *e = iovv_cend(this);', 1),
        (r'\{\s*if \(pos \+ \(off_t\)it->iov_len > offset\)\s*break;', '{ SLA_TOP if (pos + (off_t)it->iov_len > offset) break;', 1),
        (r'if \(it != e\) \{', 'if (it != e) { S_A = (int)(it - IOV0);', 1),
        (r'for \(; it != e && cnt < iov->iovcnt; \+\+it\) \{', 'for (; it != e && cnt < iov->iovcnt; ++it) { SLB_TOP', 1)],
        marks={'count': 2, 0: dict(name='SLA', frame=['it', 'pos'], pure=['PRE_STEP']),
               1: dict(name='SLB', frame=['it', 'cnt', 'ret', 'count', 'ptr', 'iov', 'OUTS'], pure=['PRE_STEP'], ptr_targets={})}),
]

# ---- owning-vector wrappers: one generated unit + proof per wrapper (the same template, the wrapper's lowered text at WRAPPER)
WF = fields_rule(['iov_begin', 'iov_end', 'iovs'], min_fires=0)
WRULES = [(r'(?:auto|__auto_type) va = view\(\);', 'struct iovector_view va = OWN_view(this);', 1),
          (r'\bva\.(shrink_to|extract_front|extract_back)\(', r'VOP_\1(&va, ', 1), WF]
WRAPPERS = [('shrink_to', r'size_t shrink_to\(size_t size\)\s*(?=\{\s*auto va = view\(\);)', 'size', 'K_SHRINK'),
            ('extract_front', r'size_t extract_front\(size_t bytes\)\s*(?=\{\s*auto va = view\(\);)', 'bytes', 'K_FRONT'),
            ('extract_front_buf', r'size_t extract_front\(size_t bytes, void\* buf\)\s*(?=\{\s*auto va = view\(\);)', 'bytes', 'K_FRONT'),
            ('extract_back', r'size_t extract_back\(size_t bytes\)\s*(?=\{\s*auto va = view\(\);)', 'bytes', 'K_BACK'),
            ('extract_back_buf', r'size_t extract_back\(size_t bytes, void\* buf\)\s*(?=\{\s*auto va = view\(\);)', 'bytes', 'K_BACK')]
TARGETS += [
    Target('own_iovec', HDR, r'struct iovec\* iovec\(\)\s*(?=\{)', rules=[(r'do_assert\(\);', 'do_assert_(this);', 1), (r'iovs_ptr\(\)', 'OWN_iovs_ptr(this)', 1), WF]),
    Target('own_iovcnt', HDR, r'uint16_t iovcnt\(\) const\s*(?=\{)', rules=[(r'do_assert\(\);', 'do_assert_(this);', 1), WF]),
    Target('own_view', HDR, r'iovector_view view\(\) const\s*(?=\{\s*return iovector_view\(\(struct iovec\*\)iovec\(\), iovcnt\(\)\);)', rules=[
        (r'return iovector_view\(\(struct iovec\*\)iovec\(\), iovcnt\(\)\);', 'return (struct iovector_view){ (struct iovec*)OWN_iovec(this), OWN_iovcnt(this) };', 1)]),
] + [Target('w_' + n, HDR, loc, rules=WRULES) for (n, loc, a, k) in WRAPPERS]
WCRULES = [(r'(?:auto|__auto_type) va = view\(\);', 'struct iovector_view va = OWN_view(this);', 1),
           (r'\bva\.(extract_front_continuous|extract_back_continuous|sum)\(', r'VOP_\1(&va, ', 2), (r'VOP_sum\(&va, \)', 'VOP_sum(&va)', 1),
           (r'(?<![\w>.])update\(va\)', 'OWN_update(this, va)', 1), (r'(?<![\w>.])do_malloc\(', 'OWN_do_malloc(this, ', 1),
           (r'(?<![\w>.])extract_(front|back)\(bytes, buf\)', r'OWN_extract_\1(this, bytes, buf)', 1)]
WRAPC = [('front_continuous', r'void\* extract_front_continuous\(size_t bytes\)\s*(?=\{\s*auto va = view\(\);)', 'true'),
         ('back_continuous', r'void\* extract_back_continuous\(size_t bytes\)\s*(?=\{\s*auto va = view\(\);)', 'false')]
TARGETS += [Target('own_update', HDR, r'void update\(iovector_view va\)\s*(?=\{)', rules=[WF])] + [Target('wc_' + n, HDR, loc, rules=WCRULES, common=True) for (n, loc, f) in WRAPC]
TARGETS += [Target('truncate', HDR, r'size_t truncate\(size_t size\)\s*(?=\{)', common=True, rules=[
    (r'(?<![\w>.])sum\(\)', 'OWN_sum(this)', 1), (r'(?<![\w>.])shrink_to\(', 'OWN_shrink_to(this, ', 1), (r'(?<![\w>.])push_back\(', 'OWN_push_back(this, ', 1)])]
WF2 = fields_rule(['iov_begin', 'iov_end', 'iovs', 'capacity'], min_fires=0)
PPR = [(r'do_assert\(\);', 'do_assert_(this);', 1), (r'(?<![\w>.])empty\(\)', 'OWN_empty(this)', 0), WF2]
TARGETS += [Target('own_empty', HDR, r'bool empty\(\) const\s*(?=\{\s*do_assert\(\);\s*return iov_begin)', rules=PPR),
            Target('pp_push_front', HDR, r'size_t push_front\(struct iovec iov\)\s*(?=\{)', rules=PPR),
            Target('pp_push_back', HDR, r'size_t push_back\(struct iovec iov\)\s*(?=\{)', rules=PPR),
            Target('pp_pop_front', HDR, r'size_t pop_front\(\)\s*(?=\{)', rules=PPR),
            Target('pp_pop_back', HDR, r'size_t pop_back\(\)\s*(?=\{)', rules=PPR)]
def _mk_wrapc(n, f):
    def gen(lowered):
        t = open(__file__.rsplit('/', 1)[0] + '/wrapc.c.in').read()
        return t.replace('/*@BODY WRAPPER@*/', '/*@BODY wc_%s@*/' % n).replace('WANT_FRONT', f)
    gen.__name__ = 'wrapc_' + n
    return gen
def _mk_wrap(n, a, k):
    def gen(lowered):
        t = open(__file__.rsplit('/', 1)[0] + '/wrap.c.in').read()
        return t.replace('/*@BODY WRAPPER@*/', '/*@BODY w_%s@*/' % n).replace('ARG0', a).replace('EXPECT_KIND', k)
    gen.__name__ = 'wrap_' + n
    return gen
UNITS = {'iov.c': 'iov.c.in'}
for (_n, _loc, _a, _k) in WRAPPERS:
    UNITS['wrap_%s.c' % _n] = _mk_wrap(_n, _a, _k)
for (_n, _loc, _f) in WRAPC:
    UNITS['wrapc_%s.c' % _n] = _mk_wrapc(_n, _f)
UNITS['trunc.c'] = 'trunc.c.in'
UNITS['pp.c'] = 'pp.c.in'
# element bases are abstract addresses (the buffers they describe are not modelled as objects), so pointer-overflow
# checks on address arithmetic over them are off; array bounds / dereference / integer checks stay on
CHECKS = ['--no-standard-checks', '--bounds-check', '--pointer-check', '--div-by-zero-check', '--signed-overflow-check',
          '--undefined-shift-check']
CV = dict(backend='cvc5', timeout=900, checks=CHECKS)
PROOFS = [
    Proof('sum', 'iov.c', 'h_sum', kind='L', min_obligations=10, **CV),
    Proof('shrink_to', 'iov.c', 'h_shrink_to', kind='L', min_obligations=10, **CV),
    Proof('extract_front/discard', 'iov.c', 'h_extract_front_discard', kind='L', min_obligations=10, **CV),
    Proof('extract_front/copy', 'iov.c', 'h_extract_front_copy', kind='L', min_obligations=10, **CV),
    Proof('extract_front/iov', 'iov.c', 'h_extract_front_iov', kind='L', min_obligations=10, **CV),
    Proof('extract_back/discard', 'iov.c', 'h_extract_back_discard', kind='L', min_obligations=10, tier='thorough', **CV),
    # extract_back(bytes, buf) and memcpy_iov: cvc5 at 1024 elements did not finish; cadical does at 16 (quick) / 64 (thorough) elements: see below
    Proof('extract_front_continuous', 'iov.c', 'h_extract_front_continuous', kind='L', min_obligations=10, **CV),
    Proof('extract_back_continuous', 'iov.c', 'h_extract_back_continuous', kind='L', min_obligations=10, **CV),
    # slice: cvc5 at 1024 elements did not finish in 15 min; cadical at 16 elements does (proof 'slice' below)
    # bounded stand-ins (labelled bounded, never counted as proved) for the three contracts no back end discharges unbounded
    Proof('bounded/slice_n2', 'iov.c', 'h_slice', kind='B', backend='cadical', defines=['NMAX=2', 'BOUNDED_LOOPS'], unwind=5, bound='at most 2 source elements and 2 output slots, any lengths / offset / count', timeout=900, checks=CHECKS),
    Proof('bounded/extract_back_copy_n2', 'iov.c', 'h_extract_back_copy', kind='B', backend='cadical', defines=['NMAX=2', 'BOUNDED_LOOPS'], unwind=5, bound='at most 2 elements, any lengths and byte count', timeout=1800, tier='thorough', checks=CHECKS),
    Proof('bounded/slice_n3', 'iov.c', 'h_slice', kind='B', backend='cadical', defines=['NMAX=3', 'BOUNDED_LOOPS'], unwind=6, bound='at most 3 source elements and 3 output slots, any lengths / offset / count', timeout=3000, tier='thorough', checks=CHECKS),
    Proof('bounded/memcpy_iov_n2', 'iov.c', 'h_memcpy_iov', kind='B', backend='cadical', defines=['NMAX=2', 'BOUNDED_LOOPS'], unwind=8, bound='at most 2 destination and 2 source elements, any lengths and byte count', timeout=3600, tier='thorough', checks=CHECKS),   # ~48 min
    Proof('memcpy_iov', 'iov.c', 'h_memcpy_iov', kind='L', min_obligations=10, backend='cadical', defines=['NMAX=16'], timeout=1800, checks=CHECKS,
          bound='at most 16 destination and 16 source elements (input-size bound; the loop is closed by its invariant for every iteration), any lengths, 0-element views included'),
    Proof('memcpy_iov_n64', 'iov.c', 'h_memcpy_iov', kind='L', min_obligations=10, backend='cadical', defines=['NMAX=64'], timeout=3600, tier='thorough', checks=CHECKS,
          bound='at most 64 + 64 elements (input-size bound), any lengths'),
    Proof('extract_back/copy', 'iov.c', 'h_extract_back_copy', kind='L', min_obligations=10, backend='cadical', defines=['NMAX=16'], timeout=2400, checks=CHECKS,
          bound='at most 16 elements (input-size bound; the loop is closed by its invariant), any lengths and byte count'),
    Proof('slice', 'iov.c', 'h_slice', kind='L', min_obligations=10, backend='cadical', defines=['NMAX=16'], timeout=2400, checks=CHECKS,
          bound='at most 16 source elements and 16 output slots (input-size bound; both loops are closed by their invariants), any lengths / offset / count'),
    Proof('extract_back/iov', 'iov.c', 'h_extract_back_iov', kind='L', min_obligations=10, backend='cadical', defines=['NMAX=16'], timeout=2400, checks=CHECKS,
          bound='at most 16 elements and output slots (input-size bound), any lengths and byte count'),
    Proof('pipe_iov', 'iov.c', 'h_pipe_iov', kind='L', min_obligations=10, backend='cadical', defines=['NMAX=16'], timeout=2400, checks=CHECKS,
          bound='at most 16 destination and 16 source elements (input-size bound), any lengths, 0-element destination views included'),
] + [Proof('wrapper/%s' % _n, 'wrap_%s.c' % _n, 'h_wrapper', kind='L', min_obligations=4, checks=CHECKS) for (_n, _loc, _a, _k) in WRAPPERS] + [
    Proof('wrapper/%s' % _n, 'wrapc_%s.c' % _n, 'h_wrapper', kind='L', min_obligations=4, checks=CHECKS) for (_n, _loc, _f) in WRAPC] + [
    Proof('wrapper/truncate', 'trunc.c', 'h_truncate', kind='L', min_obligations=3, checks=CHECKS),
    Proof('element/push_back', 'pp.c', 'h_push_back', kind='L', min_obligations=3, checks=CHECKS),
    Proof('element/push_front', 'pp.c', 'h_push_front', kind='L', min_obligations=3, checks=CHECKS),
    Proof('element/pop_front', 'pp.c', 'h_pop_front', kind='L', min_obligations=3, checks=CHECKS),
    Proof('element/pop_back', 'pp.c', 'h_pop_back', kind='L', min_obligations=3, checks=CHECKS),
    Proof('iov_iterator/ctor', 'iov.c', 'h_it_ctor', kind='L', min_obligations=4, **CV),
    Proof('lemma/pre_mono', 'iov.c', 'lemma_pre_mono', kind='L', min_obligations=3, **CV),
]
NATIVES = [Native('native', 'native.cpp', args_quick=[300000], args_thorough=[20000000], timeout=1800, link_photon=True)]
REPLAY = 'native'
TRUSTED = ['cbmc 6.11.0', 'lowering rules of specs/C14/spec.py']
NOT_DECIDED = []
ASSUMPTIONS = []
