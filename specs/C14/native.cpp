// C14 native layer: the REAL iovector_view operations (compiled from /repo/common/iovector.cpp) against a flat
// byte-string oracle, on seeded random vectors with zero-length elements anywhere.
#include "../../../repo/common/iovector.cpp"
#include <cstdio>
#include <cstdlib>
#include <cstring>
#include <string>
#include <vector>
#include <fstream>
#include <sstream>
#include <unistd.h>
#include <sys/wait.h>

static uint64_t rs_;
static uint64_t rnd() { rs_ ^= rs_ << 13; rs_ ^= rs_ >> 7; rs_ ^= rs_ << 17; return rs_; }
static std::string why;
#define FAIL(msg) do { why = msg; return false; } while (0)

struct Vec {
    std::vector<char> arena; std::vector<iovec> iov;
    std::string flat() const { std::string s; for (auto& v : iov) s.append((const char*)v.iov_base, v.iov_len); return s; }
};
static std::string flat_of(const iovector_view& v) { std::string s; for (int i = 0; i < v.iovcnt; ++i) s.append((const char*)v.iov[i].iov_base, v.iov[i].iov_len); return s; }
static void make(Vec& V, const std::vector<size_t>& lens, char seed) {
    size_t tot = 0; for (auto l : lens) tot += l + 3;
    V.arena.assign(tot + 8, 0);
    size_t pos = 1; char c = seed;
    V.iov.clear();
    for (auto l : lens) { for (size_t i = 0; i < l; ++i) V.arena[pos + i] = c++; V.iov.push_back({&V.arena[pos], l}); pos += l + 3; }
}
static bool inside(const Vec& V, const void* p, size_t n) {
    const char* b = V.arena.data(); return (const char*)p >= b && (const char*)p + n <= b + V.arena.size();
}
// one test case: op code, element lengths, argument(s)
static char JUNK[16] = {'J','U','N','K','J','U','N','K','J','U','N','K','J','U','N','K'};
static bool run_case(int op, const std::vector<size_t>& lens, size_t a, size_t b, const std::vector<size_t>& lens2) {
    Vec V; make(V, lens, 'a');
    std::vector<iovec> work = V.iov; work.push_back({nullptr, 0});
    iovector_view v(work.data(), (int)lens.size());
    std::string F = V.flat(); size_t T = F.size();
    switch (op) {
    case 0: { if (v.sum() != T) FAIL("sum != total"); if (flat_of(v) != F) FAIL("sum changed the vector"); break; }
    case 1: { size_t r = v.shrink_to(a); if (r != std::min(a, T)) FAIL("shrink_to: wrong return"); if (flat_of(v) != F.substr(0, r)) FAIL("shrink_to: view is not the first bytes"); break; }
    case 2: { size_t r = v.extract_front(a); if (r != std::min(a, T)) FAIL("extract_front: wrong return"); if (flat_of(v) != F.substr(r)) FAIL("extract_front: view is not the remaining bytes"); break; }
    case 3: { std::vector<char> buf(a + 16, '#'); size_t r = v.extract_front(a, buf.data() + 8);
              if (r != std::min(a, T)) FAIL("extract_front(buf): wrong return");
              if (std::string(buf.data() + 8, r) != F.substr(0, r)) FAIL("extract_front(buf): wrong bytes copied");
              for (size_t i = 0; i < 8; ++i) if (buf[i] != '#' || buf[8 + a + i] != '#') FAIL("extract_front(buf): wrote outside the buffer");
              for (size_t i = r; i < a; ++i) if (buf[8 + i] != '#') FAIL("extract_front(buf): wrote beyond ret");
              if (flat_of(v) != F.substr(r)) FAIL("extract_front(buf): view is not the remaining bytes"); break; }
    case 4: { std::vector<iovec> out(b + 1, iovec{JUNK, 5}); iovector_view o(out.data(), (int)b); ssize_t r = v.extract_front(a, &o);
              if (r >= 0) { if ((size_t)r != std::min(a, T)) FAIL("extract_front(iov): wrong return"); if (flat_of(o) != F.substr(0, r)) FAIL("extract_front(iov): output is not the extracted bytes");
                            if (o.iovcnt > (int)b) FAIL("extract_front(iov): output overflow"); if (flat_of(v) != F.substr(r)) FAIL("extract_front(iov): view is not the remaining bytes"); }
              else { if (r != -1) FAIL("extract_front(iov): bad error value");
                     size_t need = 0, acc = 0; for (auto l : lens) { if (acc < a) need++; acc += l; }   // one slot per element visited while bytes are still wanted
                     if (b >= need) FAIL("extract_front(iov): returned -1 although the extracted range fits in the output array"); } break; }
    case 5: { size_t r = v.extract_back(a); if (r != std::min(a, T)) FAIL("extract_back: wrong return"); if (flat_of(v) != F.substr(0, T - r)) FAIL("extract_back: view is not the remaining bytes"); break; }
    case 6: { std::vector<char> buf(a + 16, '#'); size_t r = v.extract_back(a, buf.data() + 8);
              if (r != std::min(a, T)) FAIL("extract_back(buf): wrong return");
              if (std::string(buf.data() + 8 + (a - r), r) != F.substr(T - r)) FAIL("extract_back(buf): wrong bytes copied");
              for (size_t i = 0; i < 8; ++i) if (buf[i] != '#' || buf[8 + a + i] != '#') FAIL("extract_back(buf): wrote outside the buffer");
              if (flat_of(v) != F.substr(0, T - r)) FAIL("extract_back(buf): view is not the remaining bytes"); break; }
    case 7: { std::vector<iovec> out(b + 1, iovec{JUNK, 5}); iovector_view o(out.data(), (int)b); ssize_t r = v.extract_back(a, &o);
              if (r >= 0) { if ((size_t)r != std::min(a, T)) FAIL("extract_back(iov): wrong return"); if (flat_of(o) != F.substr(T - r)) FAIL("extract_back(iov): output is not the extracted bytes");
                            if (o.iov < out.data() || o.iov + o.iovcnt > out.data() + b) FAIL("extract_back(iov): output outside the array");
                            if (flat_of(v) != F.substr(0, T - r)) FAIL("extract_back(iov): view is not the remaining bytes"); }
              else { if (r != -1) FAIL("extract_back(iov): bad error value");
                     size_t need = 0, acc = 0; for (size_t i = lens.size(); i-- > 0;) { if (acc < a) need++; acc += lens[i]; }
                     if (b >= need) FAIL("extract_back(iov): returned -1 although the extracted range fits in the output array"); } break; }
    case 8: { if (lens.empty()) break; void* p = v.extract_front_continuous(a);
              if (lens[0] < a) { if (p) FAIL("extract_front_continuous: should fail"); if (flat_of(v) != F) FAIL("extract_front_continuous: failed but changed the vector"); }
              else { if (p != V.iov[0].iov_base) FAIL("extract_front_continuous: wrong pointer"); if (flat_of(v) != F.substr(a)) FAIL("extract_front_continuous: view is not the remaining bytes"); } break; }
    case 9: { if (lens.empty()) break; void* p = v.extract_back_continuous(a); size_t ll = lens.back();
              if (ll < a) { if (p) FAIL("extract_back_continuous: should fail"); if (flat_of(v) != F) FAIL("extract_back_continuous: failed but changed the vector"); }
              else { if (p != (char*)V.iov.back().iov_base + (ll - a)) FAIL("extract_back_continuous: wrong pointer"); if (flat_of(v) != F.substr(0, T - a)) FAIL("extract_back_continuous: view is not the remaining bytes"); } break; }
    case 10: { std::vector<iovec> out(b + 1, iovec{JUNK, 5}); iovector_view o(out.data(), (int)b); size_t off = lens2.empty() ? 0 : lens2[0];
              ssize_t r = v.slice(a, (off_t)off, &o);
              if (b == 0) { if (r != -1) FAIL("slice: empty output array must give -1"); break; }
              if (r < 0) FAIL("slice: unexpected failure");
              size_t avail = off < T ? T - off : 0; if ((size_t)r > std::min(a, avail)) FAIL("slice: returns more than available");
              if (o.iovcnt > (int)b) FAIL("slice: output overflow");
              if (flat_of(o) != F.substr(std::min(off, T), r)) FAIL("slice: output is not the requested flat range");
              if ((size_t)r < std::min(a, avail) && o.iovcnt < (int)b) FAIL("slice: truncated although output space was left");
              if (flat_of(v) != F) FAIL("slice changed the source"); break; }
    case 11: case 12: { // memcpy_to(iov) / pipe_to(iov)
              Vec D; make(D, lens2, 'A'); std::vector<iovec> dw = D.iov; dw.push_back({nullptr, 0}); iovector_view d(dw.data(), (int)lens2.size());
              if (lens.empty() || lens2.empty()) break;   // iov_iterator reads iov[0] of an empty view (precondition: non-empty)
              size_t DT = D.flat().size(); size_t want = std::min(a, std::min(T, DT));
              size_t r = (op == 11) ? v.memcpy_to(&d, a) : v.pipe_to(&d, a);
              if (r != want) FAIL(op == 11 ? "memcpy_to: wrong return" : "pipe_to: wrong return");
              std::string DF; for (auto& e : D.iov) DF.append((const char*)e.iov_base, e.iov_len);
              if (DF.substr(0, r) != F.substr(0, r)) FAIL(op == 11 ? "memcpy_to: wrong bytes" : "pipe_to: wrong bytes");
              std::string D0; { Vec D2; make(D2, lens2, 'A'); D0 = D2.flat(); }
              if (DF.substr(r) != D0.substr(r)) FAIL("copy wrote beyond the returned count");
              for (size_t i = 0; i < D.arena.size(); ++i) { bool in = false; for (auto& e : D.iov) if (&D.arena[i] >= (char*)e.iov_base && &D.arena[i] < (char*)e.iov_base + e.iov_len) in = true; if (!in && D.arena[i] != 0) FAIL("copy wrote outside the destination elements"); }
              if (op == 11) { if (flat_of(v) != F) FAIL("memcpy_to changed the source"); }
              else if (flat_of(v) != F.substr(r)) FAIL("pipe_to: source is not the remaining bytes");
              break; }
    case 13: case 14: { // owning IOVector: extract_front_continuous / extract_back_continuous (may copy into an internal buffer)
              IOVector iv; for (auto& e : V.iov) iv.push_back(e.iov_base, e.iov_len);
              void* p = (op == 13) ? iv.extract_front_continuous(a) : iv.extract_back_continuous(a);
              std::string rest; for (auto& e : iv) rest.append((const char*)e.iov_base, e.iov_len);
              if (a > T) { if (p) FAIL("IOVector::extract_*_continuous: more than the content must fail"); if (rest != F) FAIL("IOVector::extract_*_continuous failed but changed the vector"); }
              else if (a > 0) { if (!p) FAIL("IOVector::extract_*_continuous: enough data but returned null");
                     if (op == 13) { if (std::string((char*)p, a) != F.substr(0, a)) FAIL("IOVector::extract_front_continuous: wrong bytes"); if (rest != F.substr(a)) FAIL("IOVector::extract_front_continuous: vector is not the remaining bytes"); }
                     else { if (std::string((char*)p, a) != F.substr(T - a)) FAIL("IOVector::extract_back_continuous: wrong bytes"); if (rest != F.substr(0, T - a)) FAIL("IOVector::extract_back_continuous: vector is not the remaining bytes"); } }
              break; }
    case 15: case 16: { // owning IOVector: extract_front / extract_back / truncate / sum
              IOVector iv; for (auto& e : V.iov) iv.push_back(e.iov_base, e.iov_len);
              if (iv.sum() != T) FAIL("IOVector::sum");
              size_t r = (op == 15) ? iv.extract_front(a) : iv.extract_back(a);
              std::string rest; for (auto& e : iv) rest.append((const char*)e.iov_base, e.iov_len);
              if (r != std::min(a, T)) FAIL("IOVector::extract_front/back: wrong return");
              if (rest != (op == 15 ? F.substr(r) : F.substr(0, T - r))) FAIL("IOVector::extract_front/back: vector is not the remaining bytes");
              size_t t2 = rest.size() ? b % (rest.size() + 1) : 0; iv.truncate(t2);
              std::string rest2; for (auto& e : iv) rest2.append((const char*)e.iov_base, e.iov_len);
              if (rest2 != rest.substr(0, t2)) FAIL("IOVector::truncate: vector is not the first bytes");
              break; }
    }
    return true;
}
static void print_case(const char* tag, int op, const std::vector<size_t>& lens, size_t a, size_t b, const std::vector<size_t>& lens2) {
    printf("%s op%d {\"op\": %d, \"a\": %zu, \"b\": %zu, \"lens\": [", tag, op, op, a, b);
    for (size_t i = 0; i < lens.size(); ++i) printf("%s%zu", i ? ", " : "", lens[i]);
    printf("], \"lens2\": [");
    for (size_t i = 0; i < lens2.size(); ++i) printf("%s%zu", i ? ", " : "", lens2[i]);
    printf("], \"why\": \"%s\"}\n", why.c_str());
}
static std::vector<size_t> jarr(const std::string& j, const char* key) {
    std::vector<size_t> r; auto p = j.find(std::string("\"") + key + "\""); if (p == std::string::npos) return r;
    p = j.find('[', p); auto e = j.find(']', p); std::stringstream ls(j.substr(p + 1, e - p - 1)); std::string t;
    while (std::getline(ls, t, ',')) if (t.find_first_of("0123456789") != std::string::npos) r.push_back(strtoull(t.c_str(), 0, 10));
    return r;
}
static size_t jnum(const std::string& j, const char* key) { auto p = j.find(std::string("\"") + key + "\""); if (p == std::string::npos) return 0; p = j.find(':', p); return strtoull(j.c_str() + p + 1, 0, 10); }
// a 0-element view whose descriptor pointer is null (a default-constructed iovector_view): every copy moves 0 bytes
static bool case_empty_view() {
    fflush(stdout);
    pid_t c = fork();
    if (c == 0) {
        iovector_view e, e2; char b[8] = {1, 2, 3, 4, 5, 6, 7, 8}; iovec one{b, 8}; iovector_view full(&one, 1);
        int bad = 0;
        if (e.memcpy_to(b, 8) != 0) bad = 1;
        if (e.memcpy_from(b, 8) != 0) bad = 1;
        if (e.memcpy_to(&full, 8) != 0) bad = 1;
        if (full.memcpy_to(&e2, 8) != 0) bad = 1;
        if (e.sum() != 0) bad = 1;
        _exit(bad ? 3 : 0);
    }
    int st = 0; waitpid(c, &st, 0);
    if (WIFSIGNALED(st)) { why = "memcpy_to / memcpy_from on a default-constructed (0-element, null) iovector_view died with signal " + std::to_string(WTERMSIG(st)); return false; }
    if (WEXITSTATUS(st) != 0) { why = "a copy to or from a 0-element view did not return 0"; return false; }
    return true;
}
int main(int argc, char** argv) {
    log_output = log_output_null;
    if (argc >= 3 && !strcmp(argv[1], "--replay")) {
        std::ifstream f(argv[2]); std::stringstream ss; ss << f.rdbuf(); std::string j = ss.str();
        if (j.find("empty_view") != std::string::npos || j.find("iov_iterator") != std::string::npos) { bool ok = case_empty_view(); printf("%s %s\n", ok ? "NOT-REPRODUCED" : "REPRODUCED", why.c_str()); return 0; }
        bool ok = run_case((int)jnum(j, "op"), jarr(j, "lens"), jnum(j, "a"), jnum(j, "b"), jarr(j, "lens2"));
        printf("%s %s\n", ok ? "NOT-REPRODUCED" : "REPRODUCED", why.c_str()); return 0;
    }
    uint64_t N = argc > 1 ? strtoull(argv[1], 0, 10) : 200000, cases = 0;
    const char* sd = getenv("VERIF_SEED"); rs_ = 0x9E3779B97F4A7C15ull ^ (sd ? strtoull(sd, 0, 10) * 0x100000001B3ull : 1);
    ++cases; if (!case_empty_view()) { printf("CEX empty_view {\"kind\": \"empty_view\", \"why\": \"%s\"}\n", why.c_str()); return 3; }
    for (uint64_t k = 0; k < N; ++k) {
        int op = rnd() % 17; int n = rnd() % 7; int n2 = rnd() % 5;
        std::vector<size_t> lens, lens2; size_t T = 0;
        for (int i = 0; i < n; ++i) { size_t l = (rnd() % 3 == 0) ? 0 : rnd() % 9; lens.push_back(l); T += l; }
        for (int i = 0; i < n2; ++i) lens2.push_back((rnd() % 3 == 0) ? 0 : rnd() % 9);
        size_t a = rnd() % (T + 4); if (rnd() % 6 == 0) a = T; if (rnd() % 9 == 0) a = 0; size_t b = rnd() % 8;
        if (op == 10) { lens2.assign(1, rnd() % (T + 3)); }
        ++cases;
        if (!run_case(op, lens, a, b, lens2)) { print_case("CEX", op, lens, a, b, lens2); return 3; }
    }
    printf("OK %lu (random vectors of 0..6 elements incl. zero-length, 17 operations incl. the owning IOVector wrappers, flat-string oracle)\n", cases);
    return 0;
}
