// C01 native layer: random single-vCPU histories on the REAL photon::mutex (default, retries 0, contending mode) and recursive_mutex
// (compiled from the working tree's thread.cpp / thread.h): workers run scripts of lock(timeout) / try_lock / hold / unlock, the
// orchestrating thread interrupts lockers at random moments (while they sleep in the queue or spin).  Oracle:
//   * at most one thread is inside; lock() / try_lock() == 0 exactly for the thread inside (it can unlock; nobody else holds)
//   * a failed lock (timeout / interrupt) does not hold the mutex: when everybody is done the mutex is free (try_lock succeeds)
//   * nobody stays blocked on a free mutex (every worker finishes; watchdog in a forked child)
#include "../../../repo/thread/thread.cpp"
#include <cstdio>
#include <cstdlib>
#include <cstring>
#include <string>
#include <vector>
#include <fstream>
#include <sstream>
#include <unistd.h>
#include <sys/wait.h>
using namespace photon;
static std::string why;
static uint64_t rs_;
static uint64_t rnd() { rs_ ^= rs_ << 13; rs_ ^= rs_ >> 7; rs_ ^= rs_ << 17; return rs_; }
struct Step { int kind; uint64_t timeout_us; uint64_t hold_us; int depth; };   // kind 0 lock, 1 try_lock
struct World { photon::mutex* m = nullptr; photon::recursive_mutex* rm = nullptr; int inside = 0; bool bad = false; std::string badwhy; int done = 0; };
struct Worker { World* w; std::vector<Step> script; photon::thread* th = nullptr; bool finished = false; };
static void* worker_fn(void* a) {
    auto me = (Worker*)a; auto w = me->w;
    for (auto& s : me->script) {
        int r;
        if (w->m) r = s.kind ? w->m->try_lock() : w->m->lock(s.timeout_us);
        else r = s.kind ? w->rm->try_lock() : w->rm->lock(s.timeout_us);
        if (r == 0) {
            if (w->inside) { w->bad = true; w->badwhy = "lock() returned 0 while another thread is inside (two owners)"; }
            w->inside++;
            int extra = 0;
            if (w->rm) for (int d = 0; d < s.depth; d++) { if (((d + s.kind + (int)(s.hold_us & 1)) & 1 ? w->rm->try_lock() : w->rm->lock(1000)) != 0) { w->bad = true; w->badwhy = "the owner of a recursive_mutex could not lock it again"; } else extra++; }
            if (s.hold_us) photon::thread_usleep(s.hold_us); else photon::thread_yield();
            for (int d = 0; d < extra; d++) { w->rm->unlock(); photon::thread_yield(); }   // still held (depth >= 1): nobody may get in at these yields
            w->inside--;
            if (w->m) w->m->unlock(); else w->rm->unlock();
        } else if (r != -1) { w->bad = true; w->badwhy = "lock() returned neither 0 nor -1"; }
        if (rnd() % 3 == 0) photon::thread_yield();
    }
    me->finished = true; w->done++; return 0;
}
static bool history(uint64_t seed, std::string* desc) {
    rs_ = seed * 0x9E3779B97F4A7C15ull + 21; if (!rs_) rs_ = 1;
    int kind = rnd() % 4; const char* names[] = {"mutex", "mutex(0)", "mutex(contending)", "recursive_mutex"};
    photon::mutex m0, m1(0), m2(8, true); photon::recursive_mutex rm;
    World w; if (kind == 0) w.m = &m0; else if (kind == 1) w.m = &m1; else if (kind == 2) w.m = &m2; else w.rm = &rm;
    int nw = 2 + rnd() % 4; std::vector<Worker> ws(nw); char b[96];
    snprintf(b, sizeof b, "%s workers=%d:", names[kind], nw); *desc = b;
    for (auto& k : ws) { k.w = &w; int n = 1 + rnd() % 4; for (int i = 0; i < n; i++) { Step s; s.kind = rnd() % 5 == 0; s.timeout_us = rnd() % 3 == 0 ? 1000 + rnd() % 3000 : (uint64_t)-1; s.hold_us = rnd() % 2 ? 0 : 500 + rnd() % 2000; s.depth = rnd() % 4; k.script.push_back(s); snprintf(b, sizeof b, " %s%s", s.kind ? "try" : "lock", s.timeout_us == (uint64_t)-1 ? "" : "(t)"); *desc += b; } *desc += ";"; }
    for (auto& k : ws) k.th = photon::thread_create(&worker_fn, &k);
    for (int round = 0; round < 4000 && w.done < nw; round++) {
        if (rnd() % 2) photon::thread_usleep(300); else photon::thread_yield();
        if (rnd() % 4 == 0) { auto& k = ws[rnd() % nw]; if (!k.finished) { auto st = photon::thread_stat(k.th); if (st == photon::states::SLEEPING || st == photon::states::READY) photon::thread_interrupt(k.th, EINTR); } }
    }
    if (w.bad) { why = w.badwhy; return false; }
    if (w.done < nw) { why = "a worker is still blocked although nobody holds the mutex"; return false; }
    int r = w.m ? w.m->try_lock() : w.rm->try_lock();
    if (r != 0) { why = "after every holder unlocked the mutex is still owned: a lock() that reported failure kept it"; return false; }
    if (w.m) w.m->unlock(); else w.rm->unlock();
    return true;
}
template<class F> static int in_child(F f, int secs, std::string* msg) {
    int p[2]; if (pipe(p)) return 2;
    pid_t c = fork();
    if (c == 0) { close(p[0]); alarm(secs); if (photon::vcpu_init() < 0) _exit(9); bool ok = f(); if (!ok) { ssize_t r_ = write(p[1], why.c_str(), why.size()); (void)r_; } _exit(ok ? 0 : 1); }
    close(p[1]); char buf[700]; ssize_t n = read(p[0], buf, sizeof buf - 1); if (n < 0) n = 0; buf[n] = 0; close(p[0]);
    int st = 0; waitpid(c, &st, 0);
    if (WIFEXITED(st) && WEXITSTATUS(st) == 0) return 0;
    if (WIFEXITED(st) && WEXITSTATUS(st) == 1) { *msg = buf; return 1; }
    *msg = "hang or crash (watchdog)"; return 2;
}
int main(int argc, char** argv) {
    set_log_output_level(ALOG_FATAL + 1);
    uint64_t seed0 = getenv("VERIF_SEED") ? strtoull(getenv("VERIF_SEED"), 0, 10) : 1;
    if (argc >= 3 && !strcmp(argv[1], "--replay")) {
        std::ifstream f(argv[2]); std::stringstream ss; ss << f.rdbuf(); std::string j = ss.str(), msg; auto p_ = j.find("\"seed\": ");
        if (p_ == std::string::npos) { printf("NOT-REPRODUCED no concrete history for this obligation\n"); return 0; }
        uint64_t sd = strtoull(j.c_str() + p_ + 8, 0, 10); static std::string d;
        int r = in_child([&] { bool ok = history(sd, &d); if (!ok) why = d + ": " + why; return ok; }, 60, &msg);
        printf("%s %s\n", r ? "REPRODUCED" : "NOT-REPRODUCED", msg.c_str()); return 0;
    }
    uint64_t N = argc > 1 ? strtoull(argv[1], 0, 10) : 400, cases = 0;
    for (uint64_t base = 0; base < N; base += 40) {
        std::string msg; static std::string d;
        int r = in_child([&] { for (uint64_t s = base; s < base + 40 && s < N; s++) { d.clear(); uint64_t sd = seed0 * 1000003 + s; if (!history(sd, &d)) { why = std::to_string(sd) + "|" + d + ": " + why; return false; } } return true; }, 300, &msg);
        if (r) { uint64_t sd = strtoull(msg.c_str(), 0, 10); for (auto& ch : msg) if (ch == '"') ch = '\''; printf("CEX mutex {\"kind\": \"mutex\", \"seed\": %lu, \"why\": \"%s\"}\n", (unsigned long)sd, msg.c_str()); return 3; }
        cases += 40;
    }
    printf("OK %lu (random single-vCPU histories of lock / timed lock / try_lock / interrupt / unlock on the real mutex (3 modes) and recursive_mutex: one owner, failed locks hold nothing, nobody left blocked)\n", (unsigned long)cases);
    return 0;
}
