from engine.api import Target, Proof, Native
from engine.extract import fields_rule
ID = 'C01'
LEVEL = 'proof'
TC = 'thread/thread.cpp'
TH = 'thread/thread.h'
OW = [(r'owner\.compare_exchange_strong\(ptr, CURRENT,\s*std::memory_order_acq_rel, std::memory_order_relaxed\)', 'owner_cas(this, &ptr, CURRENT)', 0),
      (r'owner\.load\([^)]*\)', 'owner_load(this)', 0), (r'\bthread\* ptr = NULL;', 'struct thread *ptr = NULL;', 0)]
QS = [(r'asm volatile\("": "\+r"\(h\)\);', ';', 0), (r'&qslholder', '&QSLH', 1), (r'\bholder\*', 'struct holder *', 0),
      (r'_owner_tail\.compare_exchange_strong\((\w+),\s*([^,]+), std::memory_order_acq_rel\)', r'qs_cas(this, &\1, \2)', 0),
      (r'_owner_tail\.exchange\((\w+), std::memory_order_acq_rel\)', r'qs_xchg(this, \1)', 0),
      (r'(\w+)->got_lock\.store\((\w+), [^)]*\)', r'qs_store_got(this, \1, \2)', 0), (r'(\w+)->got_lock\.load\([^)]*\)', r'qs_load_got(this, \1)', 0),
      (r'(\w+)->next\.store\((\w+), [^)]*\)', r'qs_store_next(this, \1, \2)', 0), (r'(\w+)->next\.load\([^)]*\)', r'qs_load_next(this, \1)', 0),
      (r'(?<![\w>.])spin_wait\(\);', ';', 0), (r'\bint\((\w+)\)', r'(int)(\1)', 0)]
TARGETS = [
    Target('waitq_translate_errno', TC, r'inline int waitq_translate_errno\(int ret\)'),
    Target('try_lock', TC, r'int mutex::try_lock\(\)', rules=OW),
    Target('lock', TC, r'int mutex::lock\(Timeout timeout\)', rules=OW + [
        (r'(?<![\w>.])try_lock\(\)', 'MTX_try_lock(this)', 3), (r'__auto_type re = retries', 'uint16_t re = this->retries', 1),
        (r'thread_yield\(\)', 'thread_yield_(this)', 1), (r'splock\.lock\(\)', 'sp_lock(this)', 1), (r'splock\.unlock\(\)', 'sp_unlock(this)', 2),
        (r'timeout\.expired\(\)', 'Timeout_expired(&timeout)', 1),
        (r'thread_usleep_defer\(timeout,\s*\(thread_list\*\)&q, &spinlock_unlock, &splock\)', 'usleep_defer_(this)', 1),
        (r'again:', 'again: (void)LOOPHEAD_AGAIN;', 1), (r'_contending', 'this->_contending', 0)],
        marks={'count': 1, 0: dict(name='RETRY', frame=['re', 'ret', 'this', 'errno', 'N_YIELD', 'N_MY_CAS_OK'],
               effects={'thread_yield_': ['this', 'N_YIELD'], 'MTX_try_lock': ['this', 'N_MY_CAS_OK']}, pure=[])}),
    Target('do_mutex_unlock', TC, r'inline void do_mutex_unlock\(mutex\* m\)', pre_rules=[
        (r'SCOPED_LOCK\(m->splock\);', 'sp_lock(m); DEFER(sp_unlock(m));', 1),
        (r'ScopedLockHead h\(m\);', 'struct thread *h = SLH_ctor(m); DEFER(SLH_dtor(h));', 1)], defers=dict(rettype='void'), rules=[
        (r'm->owner\.store\(', 'owner_store(m, ', 1), (r'\(thread\*\)h', 'h', 0), (r'prelocked_thread_interrupt\(', 'prelocked_thread_interrupt_(m, ', 1)]),
    Target('unlock', TC, r'void mutex::unlock\(\)', rules=[
        (r'__auto_type th = owner\.load\(\);', 'struct thread *th = this->owner;', 1), (r'LOG_ERROR_RETURN\(EINVAL, ,[^;]*;', 'return;', 2),
        (r'do_mutex_unlock\(this\)', 'do_mutex_unlock(this)', 1)]),
    Target('r_lock', TC, r'int recursive_mutex::lock\(Timeout timeout\)', rules=[
        (r'(?<![\w>.])owner(?:\.load\([^)]*\))? == CURRENT', 'this->owner == CURRENT', 1), (r'mutex::lock\(timeout\)', 'MTX_lock_c(this, timeout)', 1), fields_rule(['recursive_count'])]),
    Target('r_try_lock', TC, r'int recursive_mutex::try_lock\(\)', rules=[
        (r'(?<![\w>.])owner(?:\.load\([^)]*\))? == CURRENT', 'this->owner == CURRENT', 1), (r'mutex::try_lock\(\)', 'MTX_try_lock_c(this)', 1), fields_rule(['recursive_count'])]),
    Target('r_unlock', TC, r'void recursive_mutex::unlock\(\)', rules=[
        (r'__auto_type th = owner\.load\(\);', 'struct thread *th = this->owner;', 1), (r'LOG_ERROR_RETURN\(EINVAL, ,[^;]*;', 'return;', 2),
        (r'do_mutex_unlock\(this\)', 'do_mutex_unlock_c(this)', 1), fields_rule(['recursive_count'])]),
    Target('sl_lock', TH, r'int lock\(\) (?=\{\s*uint32_t delay = 1;)', rules=[
        (r'(?<![\w>.])xchg\(\)', 'SL_xchg(this)', 1), (r'(?<![\w>.])load\(\)', 'SL_load(this)', 1), (r'constexpr ', 'const ', 1)],
        marks={'count': 2, 0: dict(name='SPO', frame=['delay', 'this', 'N_XCHG_WON', 'I_HOLD_SPIN'], effects={'SL_xchg': ['this', 'N_XCHG_WON', 'I_HOLD_SPIN'], 'SL_load': ['this']}, pure=['spin_wait_n']),
               1: dict(name='SPI', frame=['delay', 'this'], effects={'SL_load': ['this']}, pure=['spin_wait_n'])}),
    Target('sl_try_lock', TH, r'int try_lock\(\) (?=\{\s*return \(likely\(!load\(\)\))', rules=[
        (r'!load\(\)', '!SL_load(this)', 1), (r'!xchg\(\)', '!SL_xchg(this)', 1)]),
    Target('sl_unlock', TH, r'void unlock\(\) (?=\{\s*_lock\.store\(false)', rules=[(r'_lock\.store\(false, std::memory_order_release\);', 'SL_store_false(this);', 1)]),
    Target('tk_lock', TC, r'int ticket_spinlock::lock\(\)', rules=[
        (r'const __auto_type ticket = next\.fetch_add\(1, std::memory_order_relaxed\);', 'const size_t ticket = T_fetch_add_next(this);', 1),
        (r'serv\.load\(std::memory_order_acquire\)', 'T_load_serv(this)', 1),
        (r'#ifdef __aarch64__.*?#endif', 'cpu_pause();', 1)],
        marks={'count': 1, 0: dict(name='TKL', frame=['this'], effects={'T_load_serv': ['this']}, pure=['cpu_pause'])}),
    Target('tk_unlock', TC, r'void ticket_spinlock::unlock\(\)', rules=[
        (r'const __auto_type successor = serv\.load\(std::memory_order_relaxed\) \+ 1;', 'const size_t successor = this->serv + 1;', 1),
        (r'serv\.store\(successor, std::memory_order_release\);', 'T_store_serv(this, successor);', 1)]),
    Target('qs_try_lock', TC, r'int qspinlock::try_lock\(\)', rules=QS),
    Target('qs_lock', TC, r'int qspinlock::lock\(\)', rules=QS, marks={'count': 1, 0: dict(name='QL', frame=['this', 'QSLH', 'SUCC_PENDING', 'SUCC_LINKED', 'HANDED_TO_ME', 'SAW_GOT'],
           effects={'qs_load_got': ['this', 'QSLH', 'SUCC_PENDING', 'SUCC_LINKED', 'HANDED_TO_ME', 'SAW_GOT']}, pure=[])}),
    Target('qs_unlock', TC, r'void qspinlock::unlock\(\)', rules=QS, marks={'count': 1, 0: dict(name='QU', frame=['this', 'QSLH', 'SUCC', 'next', 'expected', 'ME', 'SUCC_PENDING', 'SUCC_LINKED', 'N_TAIL_W', 'N_HANDOFF', 'TAIL_W_OLD', 'TAIL_W_NEW', 'HANDOFF_TO'],
           effects={'qs_load_next': ['this', 'QSLH', 'SUCC_PENDING', 'SUCC_LINKED'], 'qs_store_next': ['this', 'QSLH', 'SUCC_PENDING', 'SUCC_LINKED'], 'qs_store_got': ['this', 'QSLH', 'SUCC', 'ME', 'SUCC_PENDING', 'SUCC_LINKED', 'N_HANDOFF', 'HANDOFF_TO'],
                    'qs_cas': ['this', 'expected', 'QSLH', 'ME', 'SUCC_PENDING', 'SUCC_LINKED', 'N_TAIL_W', 'TAIL_W_OLD', 'TAIL_W_NEW']}, pure=[], ptr_targets={'next': ['SUCC'], 'h': ['QSLH']})}),
]
# the hand-off protocol of unlock() parks the reason -1 in the woken waiter's error_number: thread_interrupt must not replace it.  The
# kernel is C04's (specs/C04/sched.c.in + its targets), re-run here so that the mutex property sees a change of that function too.
import importlib.util as _ilu, os as _os
_sp = _ilu.spec_from_file_location('spec_C04_for_C01', _os.path.join(_os.path.dirname(__file__), '..', 'C04', 'spec.py'))
_c04 = _ilu.module_from_spec(_sp); _sp.loader.exec_module(_c04)
_need = ('t_expiration', 'sat_add', 'sat_sub', 't_get', 't_expired', 'prelocked_thread_interrupt', 'thread_interrupt', 'prepare_usleep', 'resume_threads_inlined', 'th_min', 'idle_wait')
TARGETS += [t for t in _c04.TARGETS if t.name in _need and t.name not in [x.name for x in TARGETS]]
UNITS = {'mutex.c': 'mutex.c.in', 'qspin.c': 'qspin.c.in', 'sched.c': '../C04/sched.c.in'}
PROOFS = [
    Proof('mutex/try_lock', 'mutex.c', 'h_try_lock', kind='L', min_obligations=2),
    Proof('mutex/lock', 'mutex.c', 'h_lock', kind='L', min_obligations=5),
    Proof('mutex/unlock', 'mutex.c', 'h_unlock', kind='L', min_obligations=4),
    Proof('recursive_mutex', 'mutex.c', 'h_recursive', kind='L', min_obligations=3),
    Proof('spinlock', 'mutex.c', 'h_spinlock', kind='L', min_obligations=3),
    Proof('qspinlock/try_lock', 'qspin.c', 'h_qs_try_lock', kind='L', min_obligations=2),
    Proof('qspinlock/lock', 'qspin.c', 'h_qs_lock', kind='L', min_obligations=3),
    Proof('qspinlock/unlock', 'qspin.c', 'h_qs_unlock', kind='L', min_obligations=3),
    Proof('handoff/interrupt_keeps_reason', 'sched.c', 'h_interrupt', kind='L', defines=['STUB_PRELOCKED'], min_obligations=5),
    Proof('handoff/wake_sleeper', 'sched.c', 'h_prelocked', kind='L', min_obligations=4),
    Proof('ticket_spinlock', 'mutex.c', 'h_ticket', kind='L', min_obligations=3),
]
NATIVES = [Native('native', 'native.cpp', args_quick=[400], args_thorough=[20000], timeout=3000, link_photon=True, cxxflags=['-fpermissive'])]
REPLAY = 'native'
AUX_VIOLATION = True    # no native oracle: a failing loop-rule obligation is reported (no-failing-input-found), see DESIGN §4
TRUSTED = ['cbmc 6.11.0', 'lowering rules of specs/C01/spec.py']
NOT_DECIDED = ['mutual exclusion of the photon mutex across sleeping waiters as a whole-history property',
               'a timeout or interrupt racing with the hand-off (the -1 paths may coincide with a hand-off; only "no own CAS succeeded" is proved)',
               'standby-queue wake-ups, qspinlock (MCS queue)', 'memory ordering (sequentially consistent model)']
ASSUMPTIONS = ['rely for mutex: owner becomes CURRENT only by this thread\'s CAS or by a hand-off while it sleeps in the queue; nobody else changes it while it is CURRENT']
