from engine.api import Target, Proof, Native
from engine.extract import fields_rule

ID = 'C15'
LEVEL = 'proof'
H = 'fs/range-split.h'
HV = 'fs/range-split-vi.h'

BASE_FIELDS = ['begin', 'end', 'abegin', 'aend', 'apbegin', 'apend', 'begin_remainder', 'end_remainder',
               'small_note', 'preface', 'first', 'postface']
REFS = [(r'\bround_down\b', '(*round_down)', 1), (r'\bremainder\b', '(*remainder)', 1), (r'\bround_up\b', '(*round_up)', 1)]
IT_FIELDS = ['i', 'offset', 'length', 'split']
SR_BOOL = (r'(?<![\w&])((?:this->split|this)->(?:small_note|preface|postface|first))(?=\s*(?:\)|&&|\|\|))',
           r'sub_range_bool(&\1)', 0)

TARGETS = [
    Target('sr_assign', H, r'void assign\(uint64_t i, uint64_t offset, uint64_t length\)'),
    Target('sr_bool', H, r'operator bool\(\)\s*const', rules=[fields_rule(['length'])]),
    Target('sr_clear', H, r'void clear\(\)', rules=[fields_rule(['length'])]),
    Target('sr_end', H, r'uint64_t end\(\)\s+const', rules=[fields_rule(['offset', 'length'], min_fires=2)]),
    Target('init', H, r'void init\(uint64_t offset, uint64_t length\)', rules=[
        fields_rule(BASE_FIELDS, min_fires=20),
        (r'(?<![\w>.])divide\(([^,;]+),\s*([^,;]+),\s*([^,;]+),\s*([^,;)]+)\);', r'D_divide(this, \1, &\2, &\3, &\4);', 2, 2),
        (r'(this->\w+)\.assign\(', r'sub_range_assign(&\1, ', 3),
        (r'(this->\w+)\.clear\(\)', r'sub_range_clear(&\1)', 5),
        (r'if \((this->\w+)\)', r'if (sub_range_bool(&\1))', 1),
        (r'(?<![\w>.])get_length\(', r'D_get_length(this, ', 2),
    ]),
    Target('abo', H, r'uint64_t aligned_begin_offset\(\) const', rules=[
        fields_rule(['abegin']), (r'(?<![\w>.])multiply\((.*?)\)', r'D_multiply(this, \1, 0)', 1)]),
    Target('aeo', H, r'uint64_t aligned_end_offset\(\) const', rules=[
        fields_rule(['aend', 'apend', 'abegin', 'apbegin', 'end_remainder', 'begin_remainder']), (r'(?<![\w>.])multiply\((.*?)\)', r'D_multiply(this, \1, 0)', 1),
        (r'(?<![\w>.])get_length\(', r'D_get_length(this, ', 0)]),
    # ---- range_split (general interval)
    Target('fixed_divide', H, r'void divide\(uint64_t x, uint64_t& round_down, uint64_t& remainder,\s*uint64_t& round_up\) const',
           index=1, count=3, rules=REFS + [fields_rule(['interval'], min_fires=3)]),
    Target('fixed_multiply', H, r'uint64_t multiply\(uint64_t i, uint64_t x = 0\) const', index=1, count=3,
           rules=[fields_rule(['interval'])]),
    Target('fixed_get_length', H, r'uint64_t get_length\(uint64_t\) const', index=0, count=2, rules=[fields_rule(['interval'])]),
    # ---- range_split_power2
    Target('pow2_divide', H, r'void divide\(uint64_t x, uint64_t& round_down, uint64_t& remainder,\s*uint64_t& round_up\) const',
           index=2, count=3, rules=REFS + [fields_rule(['interval', 'interval_shift'], min_fires=3)]),
    Target('pow2_multiply', H, r'uint64_t multiply\(uint64_t i, uint64_t x = 0\) const', index=2, count=3,
           rules=[fields_rule(['interval_shift'])]),
    Target('pow2_get_length', H, r'uint64_t get_length\(uint64_t\) const', index=1, count=2, rules=[fields_rule(['interval'])]),
    Target('pow2_ctor', H, r'range_split_power2\(uint64_t offset, uint64_t length, uint64_t interval\)\s*:\s*interval\(interval\)',
           rules=[fields_rule(['interval_shift']), (r'(?<![\w>.])init\(', 'rs_init(this, ', 1),
                  (r'^\{', '{ this->interval = interval;', 1)]),
    # ---- all_parts iterator
    Target('all_ctor', H, r'iterator\(const basic_range_split\* split\)\s*:\s*sub_range\(split->first\),\s*split\(split\)',
           rules=[(r'^\{', '{ sub_range_assign((struct sub_range*)this, split->first.i, split->first.offset, split->first.length); '
                   'this->split = split;', 1)]),
    Target('all_eq', H, r'bool operator == \(const iterator& rhs\) const', index=1, count=2,
           rules=[(r'\brhs\.', 'rhs->', 1), fields_rule(['i'])]),
    Target('all_inc', H, r'iterator& operator\+\+\(\)', index=1, count=2, rules=[
        fields_rule(IT_FIELDS, min_fires=6), SR_BOOL,
        (r'this->split->get_length\(', 'D_get_length(this->split, ', 1),
        (r'return \*this;', 'return;', 1)]),
    Target('all_begin', H, r'iterator begin\(\) const', index=1, count=2, rules=[
        fields_rule(['split']), (r'iterator it\((.*?)\);', r'struct all_it it; all_it_ctor(&it, \1);', 1)]),
    Target('all_end', H, r'iterator end\(\) const', index=1, count=2, rules=[
        fields_rule(['split'], min_fires=2), (r'iterator it\((.*?)\);', r'struct all_it it; all_it_ctor(&it, \1);', 1)]),
    # ---- aligned_parts iterator
    Target('al_ctor', H, r'iterator\(const basic_range_split\* split, uint64_t i\)\s*:\s*'
           r'sub_range\(i, 0, split->get_length\(i\)\), split\(split\)',
           rules=[(r'^\{', '{ sub_range_assign((struct sub_range*)this, i, 0, D_get_length(split, i)); this->split = split;', 1)]),
    Target('al_eq', H, r'bool operator == \(const iterator& rhs\) const', index=0, count=2,
           rules=[(r'\brhs\.', 'rhs->', 1), fields_rule(['i'])]),
    Target('al_inc', H, r'iterator& operator\+\+\(\)', index=0, count=2, rules=[
        fields_rule(IT_FIELDS, min_fires=3),
        (r'this->split->get_length\(', 'D_get_length(this->split, ', 1),
        (r'return \*this;', 'return;', 1)]),
    Target('al_begin', H, r'iterator begin\(\) const', index=0, count=2, rules=[
        fields_rule(['split'], min_fires=2),
        (r'return iterator\((.*?)\);', r'{ struct al_it r_; al_it_ctor(&r_, \1); return r_; }', 1)]),
    Target('al_end', H, r'iterator end\(\) const', index=0, count=2, rules=[
        fields_rule(['split'], min_fires=2), SR_BOOL,
        (r'return iterator\((.*?)\);', r'{ struct al_it r_; al_it_ctor(&r_, \1); return r_; }', 1)]),
    # ---- range_split_vi
    Target('vi_divide', HV, r'void divide\(uint64_t x, uint64_t& round_down, uint64_t& remainder,\s*uint64_t& round_up\) const',
           rules=REFS + [fields_rule(['key_points', 'n'], min_fires=3), (r'std::upper_bound\(', 'std_upper_bound(', 1)]),
    Target('vi_multiply', HV, r'uint64_t multiply\(uint64_t i, uint64_t x\) const', rules=[fields_rule(['key_points'])]),
    Target('vi_get_length', HV, r'uint64_t get_length\(uint64_t i\) const', rules=[fields_rule(['key_points'], min_fires=2)]),
]

UNITS = {'rs.c': 'rs.c.in'}

SAT = dict(backend='sat')
PROOFS = [
    # abstract Derived: init / classification / slack / first
    Proof('abstract/init', 'rs.c', 'h_init', kind='L', defines=['MODE_ABSTRACT'], min_obligations=15),
    # client loops with loop contracts: unbounded number of blocks
    Proof('abstract/all_parts_tile', 'rs.c', 'h_all_parts', kind='L', defines=['MODE_ABSTRACT'], canaries=2,
          min_obligations=15),
    Proof('abstract/aligned_parts', 'rs.c', 'h_aligned_parts', kind='L', defines=['MODE_ABSTRACT'], canaries=2,
          min_obligations=10),
    # power-of-two Derived satisfies the axioms, all 2^64
    Proof('pow2/ctor', 'rs.c', 'h_pow2_ctor', kind='L', defines=['MODE_POW2']),
    Proof('pow2/axiom_point', 'rs.c', 'h_axiom_point', kind='L', defines=['MODE_POW2']),
    Proof('pow2/axiom_block', 'rs.c', 'h_axiom_block', kind='L', defines=['MODE_POW2']),
    Proof('pow2/axiom_mono', 'rs.c', 'h_axiom_mono', kind='L', defines=['MODE_POW2']),
    Proof('pow2/axiom_pmono', 'rs.c', 'h_axiom_pmono', kind='L', defines=['MODE_POW2']),
    # general interval: everything except the link between the machine operators / % and Euclidean division
    Proof('fixed/axiom_point_nodiv', 'rs.c', 'h_axiom_point', kind='L', defines=['MODE_FIXED', 'SKIP_EUCLID', 'SKIP_A3'], timeout=120),
    Proof('fixed/axiom_block_eq', 'rs.c', 'h_axiom_block', kind='L', defines=['MODE_FIXED', 'SKIP_NOWRAP'], backend='z3', timeout=120),
    Proof('fixed/axiom_block_bounded', 'rs.c', 'h_axiom_block', kind='B', defines=['MODE_FIXED', 'IV_MAX=31', 'PM_BOUND=1023'], bound='i <= 1023, interval <= 31', backend='cadical'),
    # the real range_split::divide with / and %: bounded stand-in for "machine division is Euclidean and monotone"
    Proof('fixed/axiom_point_bounded', 'rs.c', 'h_axiom_point', kind='B', defines=['MODE_FIXED', 'X_MAX=1023', 'IV_MAX=31'],
          bound='x <= 1023, interval <= 31', timeout=300, backend='cadical'),
    Proof('fixed/axiom_mono_bounded', 'rs.c', 'h_axiom_mono', kind='B', defines=['MODE_FIXED', 'X_MAX=1023', 'IV_MAX=31'],
          bound='x,y <= 1023, interval <= 31', timeout=300, backend='cadical'),
    Proof('fixed/axiom_pmono_bounded', 'rs.c', 'h_axiom_pmono', kind='B', defines=['MODE_FIXED', 'X_MAX=1023', 'IV_MAX=31', 'PM_BOUND=1023'],
          bound='i,j <= 1023, interval <= 31', timeout=300, backend='cadical'),
    # variable interval
    Proof('vi/axiom_point', 'rs.c', 'h_axiom_point', kind='L', defines=['MODE_VI']),
    Proof('vi/axiom_block', 'rs.c', 'h_axiom_block', kind='L', defines=['MODE_VI']),
    Proof('vi/axiom_mono', 'rs.c', 'h_axiom_mono', kind='L', defines=['MODE_VI']),
    Proof('vi/axiom_pmono', 'rs.c', 'h_axiom_pmono', kind='L', defines=['MODE_VI']),
    # bounded end-to-end runs of the real code (counterexample source)
    Proof('pow2/bounded', 'rs.c', 'h_bounded', kind='B', defines=['MODE_POW2', 'B_MAX=16'], unwind=20,
          bound='offset,length,interval <= 16', cex_for=['abstract/init', 'abstract/all_parts_tile', 'abstract/aligned_parts']),
    Proof('fixed/bounded', 'rs.c', 'h_bounded', kind='B', defines=['MODE_FIXED', 'B_MAX=12'], unwind=16,
          bound='offset,length,interval <= 12', cex_for=['abstract/init', 'abstract/all_parts_tile', 'abstract/aligned_parts']),
]

NATIVES = [Native('native', 'native.cpp', args_quick=[20000], args_thorough=[2000000], timeout=900)]
REPLAY = 'native'
TRUSTED = ['cbmc 6.11.0 (C front end, goto-instrument --dfcc loop-contract instrumentation, SAT/SMT back ends)',
           'mechanical lowering rules of specs/C15/spec.py (C++ -> C), validated by the native differential run']
NOT_DECIDED = []
ASSUMPTIONS = []
