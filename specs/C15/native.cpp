// C15 native layer: runs the REAL photon::fs::range_split / range_split_power2 / range_split_vi
// against an independent flat oracle.  (a) differential run on seeded random + boundary inputs,
// (b) exhaustive small-domain check of the Euclid facts the general-interval proof trusts,
// (c) --replay <file>: re-run one counterexample produced by the verifier.
#include <photon/fs/range-split.h>
#include <photon/fs/range-split-vi.h>
#include <cstdio>
#include <cstdlib>
#include <cstring>
#include <string>
#include <vector>
#include <fstream>
#include <sstream>
using namespace photon::fs;

static std::string why;
#define FAIL(msg) do { why = msg; return false; } while (0)

template <typename RS, typename LenAt, typename PosAt>
static bool check_split(RS& rs, uint64_t offset, uint64_t length, LenAt len_at, PosAt pos_at) {
    uint64_t end = offset + length, pos = offset, n = 0, cap = 1u << 20;
    bool have_ne = false;
    for (auto& x : rs.all_parts()) {
        if (++n > cap) FAIL("all_parts does not terminate");
        if (pos_at(x.i) + x.offset != pos) FAIL("part does not start where the previous ended");
        if (x.offset + x.length > len_at(x.i)) FAIL("part crosses a block boundary");
        if (length > 0 && x.length == 0) FAIL("empty part in a non-empty range");
        if (length == 0 && x.length != 0) FAIL("non-empty part for an empty range");
        have_ne |= x.length > 0;
        pos += x.length;
    }
    if (pos != end) FAIL("union of parts is not [begin,end)");
    uint64_t abo = rs.aligned_begin_offset(), aeo = rs.aligned_end_offset();
    if (!(abo <= offset && offset - abo < len_at(rs.abegin))) FAIL("aligned begin offset slack");
    if (!(aeo >= end)) FAIL("aligned end offset below end");
    if (rs.end_remainder && !(aeo - end < len_at(rs.apend))) FAIL("aligned end offset slack");
    if (!rs.end_remainder && aeo != end) FAIL("aligned end offset of a range that ends on a block boundary is not its end");
    // classification vs list
    uint64_t m = 0, lo = rs.abegin + (rs.begin_remainder != 0), hi = rs.apend;
    for (auto& x : rs.aligned_parts()) {
        if (++m > cap) FAIL("aligned_parts does not terminate");
        if (!(x.i >= lo && x.i < hi)) FAIL("aligned part outside the full blocks of the range");
        if (x.offset != 0 || x.length != len_at(x.i)) FAIL("aligned part is not a full block");
    }
    uint64_t expect_m = hi > lo ? hi - lo : 0;
    if (m != expect_m) FAIL("number of aligned parts differs from the number of full blocks");
    if (length > 0) {
        uint64_t total = (rs.small_note ? rs.small_note.length : 0) + (rs.preface ? rs.preface.length : 0) +
                         (rs.postface ? rs.postface.length : 0);
        for (uint64_t i = lo; i < hi; ++i) total += len_at(i);
        if (total != length) FAIL("small note + preface + aligned parts + postface do not add up to the range");
    } else if (rs.small_note || rs.preface || rs.postface) FAIL("empty range has a classified part");
    return true;
}

static bool run_fixed(uint64_t o, uint64_t l, uint64_t iv) {
    range_split rs(o, l, iv);
    return check_split(rs, o, l, [&](uint64_t) { return iv; }, [&](uint64_t i) { return i * iv; });
}
static bool run_pow2(uint64_t o, uint64_t l, uint64_t iv) {
    range_split_power2 rs(o, l, iv);
    return check_split(rs, o, l, [&](uint64_t) { return iv; }, [&](uint64_t i) { return i * iv; });
}
static bool run_vi(uint64_t o, uint64_t l, const std::vector<uint64_t>& kp) {
    range_split_vi rs(o, l, kp.data(), kp.size());
    return check_split(rs, o, l, [&](uint64_t i) { return kp[i + 1] - kp[i]; }, [&](uint64_t i) { return kp[i]; });
}

static uint64_t rng_state;
static uint64_t rnd() { rng_state ^= rng_state << 13; rng_state ^= rng_state >> 7; rng_state ^= rng_state << 17; return rng_state; }

static uint64_t jget(const std::string& s, const char* key, bool* found = nullptr) {
    std::string k = std::string("\"") + key + "\"";
    auto p = s.find(k);
    if (found) *found = p != std::string::npos;
    if (p == std::string::npos) return 0;
    p = s.find(':', p);
    return strtoull(s.c_str() + p + 1, nullptr, 10);
}

int main(int argc, char** argv) {
    if (argc >= 3 && !strcmp(argv[1], "--replay")) {
        std::ifstream f(argv[2]); std::stringstream ss; ss << f.rdbuf(); std::string s = ss.str();
        uint64_t o = jget(s, "in_offset"), l = jget(s, "in_length"), iv = jget(s, "in_interval");
        bool pow2 = s.find("pow2/") != std::string::npos || s.find("\"mode\": \"pow2\"") != std::string::npos;
        if (iv == 0) { printf("NOT-REPRODUCED (no interval in replay file)\n"); return 0; }
        bool ok = pow2 ? run_pow2(o, l, iv) : run_fixed(o, l, iv);
        if (ok && !pow2 && (iv & (iv - 1)) == 0) ok = run_pow2(o, l, iv);
        printf("%s mode=%s offset=%lu length=%lu interval=%lu %s\n", ok ? "NOT-REPRODUCED" : "REPRODUCED",
               pow2 ? "pow2" : "fixed", o, l, iv, why.c_str());
        return 0;
    }
    uint64_t N = argc > 1 ? strtoull(argv[1], 0, 10) : 20000;
    const char* sd = getenv("VERIF_SEED");
    rng_state = 0x9E3779B97F4A7C15ull ^ (sd ? strtoull(sd, 0, 10) * 0x100000001B3ull : 1);
    uint64_t cases = 0;
    // (b) exhaustive small domain: fixed and pow2, offset,length <= 40, interval <= 24
    for (uint64_t iv = 1; iv <= 24; ++iv)
        for (uint64_t o = 0; o <= 40; ++o)
            for (uint64_t l = 0; l <= 40; ++l) {
                ++cases;
                if (!run_fixed(o, l, iv)) { printf("CEX fixed {\"mode\": \"fixed\", \"in_offset\": %lu, \"in_length\": %lu, \"in_interval\": %lu, \"why\": \"%s\"}\n", o, l, iv, why.c_str()); return 3; }
                if ((iv & (iv - 1)) == 0 && !run_pow2(o, l, iv)) { printf("CEX pow2 {\"mode\": \"pow2\", \"in_offset\": %lu, \"in_length\": %lu, \"in_interval\": %lu, \"why\": \"%s\"}\n", o, l, iv, why.c_str()); return 3; }
            }
    // Euclid facts of the real range_split::divide, exhaustive x < 2^13, interval <= 2^9
    for (uint64_t iv = 1; iv <= 512; ++iv) {
        range_split rs(0, 0, iv);
        for (uint64_t x = 0; x < 8192; ++x) {
            uint64_t d, r, u; rs.divide(x, d, r, u); ++cases;
            if (!(d * iv + r == x && r < iv && u == d + (r != 0))) {
                printf("CEX divide {\"mode\": \"fixed-divide\", \"in_offset\": %lu, \"in_length\": 0, \"in_interval\": %lu, \"why\": \"divide is not Euclidean\"}\n", x, iv);
                return 3;
            }
        }
    }
    // (a) random, including 64-bit magnitudes
    for (uint64_t k = 0; k < N; ++k) {
        int wb = rnd() % 62 + 1, wl = rnd() % 20, wi = rnd() % 40 + 1;
        uint64_t iv = (rnd() >> (64 - wi)) | 1; if (rnd() & 1) iv = 1ull << (rnd() % 40);
        uint64_t o = rnd() >> (64 - wb);
        uint64_t l = rnd() % (iv * (1 + (rnd() % (1u << wl)) % 64) + 1);
        if (rnd() % 8 == 0) o -= o % iv;
        if (rnd() % 8 == 0) l = 0;
        if (rnd() % 8 == 0 && (o + l) % iv) l += iv - (o + l) % iv;
        if (l / iv > 200000) l = l % (iv * 1000);
        ++cases;
        if (!run_fixed(o, l, iv)) { printf("CEX fixed {\"mode\": \"fixed\", \"in_offset\": %lu, \"in_length\": %lu, \"in_interval\": %lu, \"why\": \"%s\"}\n", o, l, iv, why.c_str()); return 3; }
        if ((iv & (iv - 1)) == 0 && !run_pow2(o, l, iv)) { printf("CEX pow2 {\"mode\": \"pow2\", \"in_offset\": %lu, \"in_length\": %lu, \"in_interval\": %lu, \"why\": \"%s\"}\n", o, l, iv, why.c_str()); return 3; }
        // variable interval: random key points
        std::vector<uint64_t> kp; kp.push_back(0);
        int nb = rnd() % 12 + 1; uint64_t t = 0;
        for (int i = 0; i < nb; ++i) { t += rnd() % 100 + 1; kp.push_back(t); }
        kp.push_back(UINT64_MAX);
        uint64_t vo = rnd() % (t + 1), vl = rnd() % (t - vo + 1);
        if (rnd() % 4 == 0) vl = 0;
        ++cases;
        if (!run_vi(vo, vl, kp)) { printf("CEX vi {\"mode\": \"vi\", \"in_offset\": %lu, \"in_length\": %lu, \"in_interval\": 0, \"why\": \"%s\"}\n", vo, vl, why.c_str()); return 3; }
    }
    printf("OK %lu (exhaustive offset,length<=40 x interval<=24; divide exhaustive x<8192 x interval<=512; %lu random incl. variable-interval)\n", cases, N);
    return 0;
}
