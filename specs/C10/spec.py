from engine.api import Target, Proof, Native
from engine.extract import fields_rule
ID = 'C10'
LEVEL = 'proof'
BS = 'net/basic_socket.h'
EP = 'io/epoll.cpp'
KS = 'net/kernel_socket.cpp'
KSR = [(r'Timeout timeout\(m_timeout\);', 'struct Timeout timeout; Timeout_ctor(&timeout, this->m_timeout);', 0),
       (r'SmartCloneIOV<8> clone\(iov, iovcnt\);', ';', 0), (r'iovector_view view\(clone\.ptr, iovcnt\);', 'struct view_ view;', 0),
       (r'\(void\*&\)buf', 'buf', 0), (r'(?<![\w>.])fd\b', 'this->fd', 1), (r'(?<![\w>.])m_timeout\b', 'this->m_timeout', 0)]
ENG = [(r'LOG_ERROR_RETURN\((?:EINVAL|EALREADY|0), -1,[^;]*;', 'return -1;', 1),
       (r'_inflight_events\.size\(\)', 'this->inflight_size', 1), (r'_inflight_events\.resize\(', 'inflight_resize(this, ', 0),
       (r'auto& entry = _inflight_events\[e\.fd\];', 'struct InFlightEvent *entry_ = &this->_inflight_events[e.fd];', 1), (r'\bentry\.', 'entry_->', 4),
       (r'evmap\.translate_bitwisely\(', 'evmap_translate_bitwisely(', 1),
       (r'(?<![\w>.])ctl\(e\.fd, (\w+), (\w+), ENOENT\)', r'ENG_ctl(this, e.fd, \1, \2, ENOENT)', 0), (r'(?<![\w>.])ctl\(e\.fd, (\w+), (\w+)\)', r'ENG_ctl(this, e.fd, \1, \2, 0)', 1)]
TARGETS = [
    Target('doio_once', BS, r'int doio_once\(IOCB iocb, WAIT waitcb\)', rules=[(r'iocb\(\)', 'IOCB1()', 1), (r'waitcb\(\)', 'WAITCB1()', 1)],
           marks={'count': 1, 0: dict(name='ONCE', frame=['ret', 'e', 'errno', 'N_IO', 'N_WAIT', 'SAW_EAGAIN'], effects={'IOCB1': ['errno', 'N_IO'], 'WAITCB1': ['errno', 'N_WAIT', 'SAW_EAGAIN']}, pure=[])}),
    Target('bufstep', BS, r'bool operator\(\)\(size_t ret, size_t n\) __INLINE__ (?=\{\s*assert\(ret <= count\);)', rules=[
        (r'\(char\*&\)buf \+= ([^;]+);', r'*this->buf = (char*)*this->buf + (\1);', 1), (r'(?<![\w>.])count -= ', '*this->count -= ', 1), (r'return count > 0;', 'return *this->count > 0;', 1)]),
    Target('doio_loop', BS, r'ssize_t doio_loop\(IOCB iocb, STEP step\)', rules=[(r'iocb\(\)', 'IOCB2()', 1), (r'step\(ret, n\)', 'BufStep_call(&STEP0, ret, n)', 1)],
           marks={'count': 1, 0: dict(name='LOOP', frame=['ret', 'n', 'DELIVERED', 'CUR_BUF', 'CUR_CNT', 'N_IO2', 'GOT_EOF', 'GOT_ERR'],
                  effects={'IOCB2': ['DELIVERED', 'N_IO2', 'GOT_EOF', 'GOT_ERR'], 'BufStep_call': ['CUR_BUF', 'CUR_CNT']}, pure=[])}),
    Target('add_interest', EP, r'virtual int add_interest\(Event e\) override', rules=ENG),
    Target('rm_interest', EP, r'virtual int rm_interest\(Event e\) override', rules=ENG),
    Target('wait_for_fd', EP, r'int wait_for_fd\(int fd, uint32_t interest, Timeout timeout\) override', rules=[
        (r'LOG_ERROR_RETURN\((\w+), (-?\w+),[^;]*;', r'{ if (\1) errno = \1; return \2; }', 1),
        (r'(?<![\w>.])rm_interest\(\{([^}]*)\}\)', r'WF_rm_interest(this, (struct Event){\1})', 1),
        (r'(?<![\w>.])add_interest\(\{([^}]*)\}\)', r'WF_add_interest(this, (struct Event){\1})', 1),
        (r'SCOPED_PAUSE_WORK_STEALING;', ';', 1), (r'(?<![\w>.])thread_usleep\(', 'WF_thread_usleep(', 1),
        (r'ERRNO err;', 'struct ERRNO_ err; err.no = errno;', 1)]),      # ERRNO's constructor captures errno (common/utility.h)
    Target('wait_for_events', EP, r'void wait_for_events\(uint64_t timeout, const DataCB& datacb,\s*const FDCB& fdcb\)', rules=[
        (r'do_epoll_wait\(', 'ENG_do_epoll_wait(this, ', 1),
        (r'auto& e = _events\[--_events_remain\];', 'struct epoll_event_ *e_ = &this->_events[--this->_events_remain];', 1), (r'\be\.', 'e_->', 1),
        (r'eventfd_read\(_evfd, &value\);', 'eventfd_read_(this->_evfd, &value);', 1),
        (r'_inflight_events\.size\(\)', 'this->inflight_size', 1),
        (r'auto& entry = _inflight_events\[([^\]]*)\];', r'struct InFlightEvent *entry_ = &this->_inflight_events[\1];', 1), (r'\bentry\.', 'entry_->', 1),
        (r'(?<![\w>.])datacb\(', 'DATACB(', 1), (r'(?<![\w>.])fdcb\(\)', 'FDCB()', 1),
        (r'(?<![\w>.])rm_interest\(\{\s*\.fd = ([^,]*),\s*\.interests = ([^,]*),\s*\.data = ([^}]*?)\s*\}\)', r'EV_rm_interest(this, (struct Event){\1, \2, \3})', 1),   # designated -> positional (field order of struct Event: fd, interests, data)
        (r'(?<![\w>.])(_events_remain|_evfd)\b', r'this->\1', 1)],
        marks={'count': 1, 0: dict(name='EV', frame=['this', 'e_', 'value', 'entry_', 'events', 'N_FIRED', 'N_DISARM', 'N_EVFD_READ', 'FIRED', 'PENDING_DISARM'],
               effects={'DATACB': ['FIRED', 'N_FIRED', 'PENDING_DISARM'], 'EV_rm_interest': ['this', 'PENDING_DISARM', 'N_DISARM'], 'eventfd_read_': ['value', 'N_EVFD_READ']}, pure=['FDCB'],
               ptr_targets={'e_': ['this'], 'entry_': ['this']})}),
    Target('sat_add', 'common/utility.h', r'uint64_t sat_add\(uint64_t x, uint64_t y\)'),
    Target('t_ctor', 'common/timeout.h', r'Timeout\(uint64_t x\)              (?=\{)', rules=[fields_rule(['m_expiration'])]),
    Target('kss_read', KS, r'ssize_t read\(void\* buf, size_t count\) override', rules=KSR),
    Target('kss_write', KS, r'ssize_t write\(const void\* buf, size_t count\) override', rules=KSR),
    Target('kss_readv', KS, r'ssize_t readv\(const iovec\* iov, int iovcnt\) override', rules=KSR),
    Target('kss_writev', KS, r'ssize_t writev\(const iovec\* iov, int iovcnt\) override', rules=KSR),
    Target('v_front', 'common/iovector.h', r'iovec& front\(\)   ', rules=[(r'return \*iov;', 'return &(*this->iov);', 1)]),
    Target('v_pop_front', 'common/iovector.h', r'void pop_front\(\) ', rules=[fields_rule(['iov', 'iovcnt'])]),
    Target('bsv_skip_empty', BS, r'void skip_empty\(int keep\) __INLINE__', rules=[(r'v\.iovcnt', 'this->v->iovcnt', 1), (r'v\.front\(\)\.iov_len', 'iovv_front(this->v)->iov_len', 1), (r'v\.pop_front\(\);', 'iovv_pop_front(this->v);', 1)],
           marks={'count': 1, 0: dict(name='SK', frame=['this', 'view'], effects={'iovv_pop_front': ['this', 'view']}, pure=['iovv_front'])}),
    Target('bsv_call', BS, r'bool operator\(\)\(size_t ret, size_t n\) __INLINE__ (?=\{\s*auto extracted = v\.extract_front)', rules=[
        (r'v\.extract_front\(', 'iovv_extract_front(this->v, ', 1), (r'(?<![\w>.])skip_empty\(', 'BSV_skip_empty(this, ', 1), (r'v\.iovcnt', 'this->v->iovcnt', 1)]),
]
UNITS = {'sock.c': 'sock.c.in', 'epoll2.c': 'epoll2.c.in', 'kstream.c': 'kstream.c.in', 'stepv.c': 'stepv.c.in'}
PROOFS = [
    Proof('doio_once', 'sock.c', 'h_doio_once', kind='L', min_obligations=2),
    Proof('doio_loop', 'sock.c', 'h_doio_loop', kind='L', min_obligations=4, backend='cadical'),
    Proof('epoll/add_interest', 'sock.c', 'h_add_interest', kind='L', min_obligations=5),
    Proof('epoll/wait_for_fd', 'epoll2.c', 'h_wait_for_fd', kind='L', min_obligations=6),
    Proof('epoll/dispatch', 'epoll2.c', 'h_wait_for_events', kind='L', min_obligations=5),
    Proof('stream/one_deadline', 'kstream.c', 'h_kss', kind='L', min_obligations=3),
    Proof('stepv/skip_empty', 'stepv.c', 'h_skip_empty', kind='L', min_obligations=4, backend='cadical'),
    Proof('stepv/step', 'stepv.c', 'h_stepv', kind='L', min_obligations=4, backend='cadical'),
    Proof('epoll/rm_interest', 'sock.c', 'h_rm_interest', kind='L', min_obligations=4),
]
NATIVES = [Native('native', 'native.cpp', args_quick=[60], args_thorough=[3000], timeout=3000, link_photon=True, cxxflags=['-fpermissive'], ldflags=['-lssl', '-lcrypto', '-lcurl', '-laio', '-lz'])]
REPLAY = 'native'
AUX_VIOLATION = True    # the native oracle (real sockets, one vCPU) does not reach every inductive obligation: a failing loop-rule obligation is reported (no-failing-input-found), see DESIGN §4
TRUSTED = ['cbmc 6.11.0', 'lowering rules of specs/C10/spec.py']
NOT_DECIDED = ['exactly-once ordered bytes end to end (kernel sockets)', 'engine / scheduler interplay: a readiness event or timeout of one waiter never wakes or starves another',
               'the data-array wait_for_events overload, do_epoll_wait retry loop, epoll-ng / io_uring engines', 'timing of timeouts']
ASSUMPTIONS = []
