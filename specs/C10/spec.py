from engine.api import Target, Proof, Native
ID = 'C10'
LEVEL = 'proof'
BS = 'net/basic_socket.h'
EP = 'io/epoll.cpp'
ENG = [(r'LOG_ERROR_RETURN\((?:EINVAL|EALREADY|0), -1,[^;]*;', 'return -1;', 1),
       (r'_inflight_events\.size\(\)', 'this->inflight_size', 1), (r'_inflight_events\.resize\(', 'inflight_resize(this, ', 0),
       (r'auto& entry = _inflight_events\[e\.fd\];', 'struct InFlightEvent *entry_ = &this->_inflight_events[e.fd];', 1), (r'\bentry\.', 'entry_->', 4),
       (r'evmap\.translate_bitwisely\(', 'evmap_translate_bitwisely(', 1),
       (r'(?<![\w>.])ctl\(e\.fd, (\w+), (\w+), ENOENT\)', r'ENG_ctl(this, e.fd, \1, \2, ENOENT)', 0), (r'(?<![\w>.])ctl\(e\.fd, (\w+), (\w+)\)', r'ENG_ctl(this, e.fd, \1, \2, 0)', 1)]
TARGETS = [
    Target('doio_once', BS, r'int doio_once\(IOCB iocb, WAIT waitcb\)', rules=[(r'iocb\(\)', 'IOCB1()', 1), (r'waitcb\(\)', 'WAITCB1()', 1)],
           marks={'count': 1, 0: dict(name='ONCE', frame=['ret', 'e', 'errno', 'N_IO', 'N_WAIT', 'SAW_EAGAIN'], effects={'IOCB1': ['errno', 'N_IO'], 'WAITCB1': ['errno', 'N_WAIT', 'SAW_EAGAIN']}, pure=[])}),
    Target('bufstep', BS, r'bool operator\(\)\(size_t ret, size_t n\) __INLINE__ (?=\{\s*assert\(ret <= count\);)', rules=[
        (r'\(char\*&\)buf \+= ([^;]+);', r'*this->buf = (char*)*this->buf + (\1);', 1), (r'(?<![\w>.])count -= ', '*this->count -= ', 1), (r'return count > 0;', 'return *this->count > 0;', 1)]),
    Target('doio_loop', BS, r'ssize_t doio_loop\(IOCB iocb, STEP step\)', rules=[(r'iocb\(\)', 'IOCB2()', 1), (r'step\(ret, n\)', 'BufStep_call(&STEP0, ret, n)', 1)],
           marks={'count': 1, 0: dict(name='LOOP', frame=['ret', 'n', 'DELIVERED', 'CUR_BUF', 'CUR_CNT', 'N_IO2', 'GOT_EOF', 'GOT_ERR'],
                  effects={'IOCB2': ['DELIVERED', 'N_IO2', 'GOT_EOF', 'GOT_ERR'], 'BufStep_call': ['CUR_BUF', 'CUR_CNT']}, pure=[])}),
    Target('add_interest', EP, r'virtual int add_interest\(Event e\) override', rules=ENG),
    Target('rm_interest', EP, r'virtual int rm_interest\(Event e\) override', rules=ENG),
]
UNITS = {'sock.c': 'sock.c.in'}
PROOFS = [
    Proof('doio_once', 'sock.c', 'h_doio_once', kind='L', min_obligations=2),
    Proof('doio_loop', 'sock.c', 'h_doio_loop', kind='L', min_obligations=4, backend='cadical'),
    Proof('epoll/add_interest', 'sock.c', 'h_add_interest', kind='L', min_obligations=5),
    Proof('epoll/rm_interest', 'sock.c', 'h_rm_interest', kind='L', min_obligations=4),
]
NATIVES = []
AUX_VIOLATION = True    # no native oracle: a failing loop-rule obligation is reported (no-failing-input-found), see DESIGN §4
TRUSTED = ['cbmc 6.11.0', 'lowering rules of specs/C10/spec.py']
NOT_DECIDED = ['exactly-once ordered bytes end to end (kernel sockets)', 'engine / scheduler interplay: a readiness event or timeout of one waiter never wakes or starves another',
               'BufStepV (vectored step), wait_for_events, wait_for_fd, epoll-ng', 'timing of timeouts']
ASSUMPTIONS = []
