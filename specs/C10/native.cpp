// C10 native layer: the REAL KernelSocketStream / doio loops / epoll engine (net/kernel_socket.cpp, net/basic_socket.cpp, io/epoll.cpp
// of the working tree) over Unix-domain sockets inside one process, one vCPU.  Oracle from the statement:
//   * bytes written are read exactly once and in order for every split into write / writev / send calls and every receive size
//   * read() / write() move the full count unless the peer closed (then what was moved) ...; recv() returns at least one byte unless EOF
//   * the stream timeout bounds the WHOLE read()/write() call (ETIMEDOUT), it does not restart with every partial transfer
//   * a readiness event for one direction of a descriptor does not lose the waiter of the other direction
#include "../../../repo/common/iovector.cpp"
#include "../../../repo/io/epoll.cpp"
#include "../../../repo/net/basic_socket.cpp"
#include "../../../repo/net/kernel_socket.cpp"
#include <photon/photon.h>
#include <photon/net/socket.h>
#include <cstdio>
#include <cstdlib>
#include <cstring>
#include <string>
#include <vector>
#include <fstream>
#include <sstream>
#include <unistd.h>
#include <sys/socket.h>
#include <sys/wait.h>
using namespace photon;
static std::string why;
static uint64_t rs_;
static uint64_t rnd() { rs_ ^= rs_ << 13; rs_ ^= rs_ >> 7; rs_ ^= rs_ << 17; return rs_; }
#define FAIL(...) do { char m_[300]; snprintf(m_, sizeof m_, __VA_ARGS__); why = m_; return false; } while (0)
struct Pair { net::ISocketServer* srv = nullptr; net::ISocketClient* cli = nullptr; net::ISocketStream *a = nullptr, *b = nullptr; std::string path;
    bool open() {
        char p[64]; snprintf(p, sizeof p, "/tmp/vc10_%d_%lu.sock", (int)getpid(), (unsigned long)(rnd() % 100000)); path = p; unlink(p);
        srv = net::new_uds_server(true); cli = net::new_uds_client();
        if (!srv || !cli || srv->bind(p) < 0 || srv->listen(16) < 0) return false;
        photon::thread_create11([this] { b = srv->accept(); });
        a = cli->connect(path.c_str());
        for (int i = 0; i < 2000 && !b; i++) photon::thread_usleep(500);
        return a && b;
    }
    ~Pair() { delete a; delete b; delete cli; delete srv; unlink(path.c_str()); }
};
static void shrink(net::ISocketStream* s) { int v = 4096; s->setsockopt(SOL_SOCKET, SO_SNDBUF, &v, sizeof v); s->setsockopt(SOL_SOCKET, SO_RCVBUF, &v, sizeof v); }
// 1. exactly-once, ordered, complete: random segmentation on both sides
static bool case_transfer(uint64_t seed, std::string* desc) {
    rs_ = seed * 0x9E3779B97F4A7C15ull + 41; if (!rs_) rs_ = 1;
    Pair P; if (!P.open()) FAIL("cannot set up the socket pair");
    if (rnd() % 2) { shrink(P.a); shrink(P.b); }
    size_t L = rnd() % 3 == 0 ? rnd() % 64 : rnd() % 200000; std::string msg(L, 0); for (size_t i = 0; i < L; i++) msg[i] = (char)(i * 131 + (i >> 8) * 7 + seed);
    char b[96]; snprintf(b, sizeof b, "transfer L=%zu", L); *desc = b;
    bool wok = true; std::string werr; bool wdone = false;
    photon::thread_create11([&] {
        size_t p = 0;
        while (p < L) {
            size_t n = 1 + rnd() % 40000; if (n > L - p) n = L - p; int how = rnd() % 3; ssize_t r;
            if (how == 0) r = P.a->write(msg.data() + p, n);
            else if (how == 1) { struct iovec v[5]; int c = 0; size_t q = 0; int parts = 1 + rnd() % 3; for (int i = 0; i < parts; i++) { size_t l = (i == parts - 1) ? n - q : rnd() % (n - q + 1); v[c++] = {(void*)(msg.data() + p + q), l}; q += l; if (rnd() % 4 == 0) v[c++] = {(void*)(msg.data() + p + q), 0}; } r = P.a->writev(v, c); }
            else { r = P.a->send(msg.data() + p, n); if (r > 0) n = r; }
            if (r != (ssize_t)n) { wok = false; char m[120]; snprintf(m, sizeof m, "write-side call returned %zd for %zu bytes", r, n); werr = m; break; }
            p += n; if (rnd() % 3 == 0) photon::thread_yield();
        }
        P.a->shutdown(ShutdownHow::Write); wdone = true;
    });
    std::string got; std::vector<char> buf(70000);
    for (int guard = 0; guard < 1000000; guard++) {
        size_t n = 1 + rnd() % 60000; int how = rnd() % 3; ssize_t r;
        if (how == 0) { r = P.b->read(buf.data(), n); if (r >= 0 && (size_t)r < n && got.size() + r != L) FAIL("read(%zu) returned %zd before the peer closed (%zu of %zu bytes so far)", n, r, got.size() + r, L); }
        else if (how == 1) { struct iovec v[3]; size_t h = n / 2; v[0] = {buf.data(), h}; v[1] = {buf.data() + h, 0}; v[2] = {buf.data() + h, n - h}; r = P.b->readv(v, 3); if (r >= 0 && (size_t)r < n && got.size() + r != L) FAIL("readv(%zu) returned %zd before the peer closed", n, r); }
        else { r = P.b->recv(buf.data(), n); }
        if (r < 0) FAIL("read-side call failed with errno %d after %zu bytes", errno, got.size());
        if (r == 0) break;
        got.append(buf.data(), r);
        if (got.size() > L) FAIL("more bytes were read (%zu) than written (%zu)", got.size(), L);
        if (rnd() % 4 == 0) photon::thread_usleep(200);
    }
    for (int i = 0; i < 4000 && !wdone; i++) photon::thread_usleep(500);
    if (!wok) { why = werr; return false; }
    if (got.size() != L) FAIL("%zu bytes were read, %zu written", got.size(), L);
    if (got != msg) { size_t d = 0; while (got[d] == msg[d]) d++; FAIL("byte %zu differs: the stream is not the written byte sequence", d); }
    return true;
}
// 2. the stream timeout bounds the whole read() call
static bool case_read_timeout(std::string* desc) {
    *desc = "read(12) with a 60 ms stream timeout, the peer sends 1 byte every 25 ms";
    Pair P; if (!P.open()) FAIL("cannot set up the socket pair");
    P.b->timeout(60 * 1000); bool stop = false, done = false;
    photon::thread_create11([&] { for (int i = 0; i < 12 && !stop; i++) { photon::thread_usleep(25 * 1000); char c = 'x'; P.a->write(&c, 1); } done = true; });
    char buf[16]; uint64_t t0 = photon::__update_now(); errno = 0; ssize_t r = P.b->read(buf, 12); int e = errno; uint64_t dt = photon::__update_now() - t0;
    stop = true; for (int i = 0; i < 2000 && !done; i++) photon::thread_usleep(500);
    if (!(r == -1 && e == ETIMEDOUT)) FAIL("read returned %zd (errno %d) after %lu us; a 60 ms stream timeout must end it with -1/ETIMEDOUT", r, e, (unsigned long)dt);
    if (dt > 1000 * 1000) FAIL("read hung %lu us past a 60 ms stream timeout (the deadline restarted with every byte)", (unsigned long)dt);
    return true;
}
// 3. both directions of one descriptor: a readable event must not lose the blocked writer
static bool case_two_directions(std::string* desc) {
    *desc = "A writes 2 MB (blocks on a full buffer) while another thread of A waits to read; B first sends a byte, then drains";
    Pair P; if (!P.open()) FAIL("cannot set up the socket pair");
    shrink(P.a); shrink(P.b); P.a->timeout(3 * 1000 * 1000);
    size_t L = 2 * 1024 * 1024; std::string msg(L, 'm'); ssize_t wr = -2, rd = -2; int werrno = 0; bool wdone = false, rdone = false;
    photon::thread_create11([&] { errno = 0; wr = P.a->write(msg.data(), L); werrno = errno; wdone = true; });
    photon::thread_create11([&] { char c; rd = P.a->read(&c, 1); rdone = true; });
    photon::thread_usleep(20 * 1000);                 // both are blocked now: writer on EAGAIN, reader on EAGAIN
    char c = 'r'; P.b->write(&c, 1);                   // wakes the reader of A
    photon::thread_usleep(20 * 1000);
    std::vector<char> buf(65536); size_t got = 0; uint64_t t0 = photon::__update_now();
    while (got < L) { ssize_t r = P.b->recv(buf.data(), buf.size()); if (r <= 0) break; got += r; if (photon::__update_now() - t0 > 4 * 1000 * 1000) break; }
    for (int i = 0; i < 8000 && !(wdone && rdone); i++) photon::thread_usleep(500);
    if (rd != 1) FAIL("the reader of A got %zd", rd);
    if (wr != (ssize_t)L) FAIL("the writer of A returned %zd (errno %d) after the peer drained %zu of %zu bytes: its writability wait was lost when the read event fired", wr, werrno, got, L);
    return true;
}
template<class F> static int in_child(F f, int secs, std::string* msg) {
    int p[2]; if (pipe(p)) return 2;
    pid_t c = fork();
    if (c == 0) { close(p[0]); alarm(secs); if (photon::init(photon::INIT_EVENT_EPOLL, photon::INIT_IO_NONE)) _exit(9); set_log_output_level(ALOG_FATAL + 1); bool ok = f(); if (!ok) { ssize_t r_ = write(p[1], why.c_str(), why.size()); (void)r_; } _exit(ok ? 0 : 1); }
    close(p[1]); char buf[700]; ssize_t n = read(p[0], buf, sizeof buf - 1); if (n < 0) n = 0; buf[n] = 0; close(p[0]);
    int st = 0; waitpid(c, &st, 0);
    if (WIFEXITED(st) && WEXITSTATUS(st) == 0) return 0;
    if (WIFEXITED(st) && WEXITSTATUS(st) == 1) { *msg = buf; return 1; }
    *msg = "hang or crash (watchdog)"; return 2;
}
int main(int argc, char** argv) {
    uint64_t seed0 = getenv("VERIF_SEED") ? strtoull(getenv("VERIF_SEED"), 0, 10) : 1;
    if (argc >= 3 && !strcmp(argv[1], "--replay")) {
        std::ifstream f(argv[2]); std::stringstream ss; ss << f.rdbuf(); std::string j = ss.str(), msg; static std::string d; int r;
        auto p_ = j.find("\"seed\": ");
        if (j.find("read_timeout") != std::string::npos || j.find("one_deadline") != std::string::npos) r = in_child([&] { return case_read_timeout(&d); }, 30, &msg);
        else if (j.find("two_directions") != std::string::npos || j.find("rm_interest") != std::string::npos) r = in_child([&] { return case_two_directions(&d); }, 30, &msg);
        else if (p_ != std::string::npos) { uint64_t sd = strtoull(j.c_str() + p_ + 8, 0, 10); r = in_child([&] { return case_transfer(sd, &d); }, 60, &msg); }
        else { printf("NOT-REPRODUCED no concrete input for this obligation\n"); return 0; }
        printf("%s %s\n", r ? "REPRODUCED" : "NOT-REPRODUCED", msg.c_str()); return 0;
    }
    uint64_t N = argc > 1 ? strtoull(argv[1], 0, 10) : 60, cases = 0; std::string msg; static std::string d;
    ++cases; if (int r = in_child([&] { return case_read_timeout(&d); }, 30, &msg)) { printf("CEX read_timeout {\"kind\": \"read_timeout\", \"why\": \"%s\"}\n", msg.c_str()); return 3; }
    ++cases; if (int r = in_child([&] { return case_two_directions(&d); }, 30, &msg)) { printf("CEX two_directions {\"kind\": \"two_directions\", \"why\": \"%s\"}\n", msg.c_str()); return 3; }
    for (uint64_t base = 0; base < N; base += 20) {
        static uint64_t bad;
        int r = in_child([&] { for (uint64_t s = base; s < base + 20 && s < N; s++) { uint64_t sd = seed0 * 1000003 + s; if (!case_transfer(sd, &d)) { why = std::to_string(sd) + "|" + d + ": " + why; return false; } } return true; }, 300, &msg);
        if (r) { uint64_t sd = strtoull(msg.c_str(), 0, 10); for (auto& ch : msg) if (ch == '"') ch = '\''; printf("CEX transfer {\"kind\": \"transfer\", \"seed\": %lu, \"why\": \"%s\"}\n", (unsigned long)sd, msg.c_str()); return 3; }
        cases += 20;
    }
    printf("OK %lu (real Unix-domain socket streams over the epoll engine on one vCPU: random write/writev/send x read/readv/recv segmentations, whole-call stream timeout, two directions of one descriptor)\n", (unsigned long)cases);
    return 0;
}
