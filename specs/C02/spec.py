from engine.api import Target, Proof, Native
from engine.extract import fields_rule
ID = 'C02'
LEVEL = 'proof'
TC = 'thread/thread.cpp'
TH = 'thread/thread.h'
AT = [(r'm_count\.load\(\)', 'atomic_load(this)', 0), (r'm_count\.compare_exchange_strong\((\w+), (\w+)\)', r'atomic_cas(this, &\1, \2)', 0),
      (r'm_count\.fetch_add\((\w+)\)', r'atomic_fetch_add(this, \1)', 0)]
TARGETS = [
    Target('try_subtract', TC, r'inline bool semaphore::try_subtract\(uint64_t count\)', rules=AT + [(r'^\{', '{ uint64_t TAKEN0_ = MY_TAKEN;', 1)],
           marks={'count': 1, 0: dict(name='TS', frame=['mc', 'new_mc', 'N_CAS_FAIL', 'LAST_SEEN', 'HAVE_SEEN', 'this'], effects={'atomic_cas': ['N_CAS_FAIL', 'this'], 'atomic_load': ['LAST_SEEN', 'HAVE_SEEN', 'this']}, pure=[])}),
    Target('signal', TH, r'int signal\(uint64_t count\) (?=\{)', rules=AT + [(r'(?<![\w>.])q\.th\b', 'QTH_READ(this)', 0),
        (r'(?<![\w>.])try_resume\(', 'SEM_try_resume(this, ', 1)],
        defers=dict(rettype='int', scoped_lock=('spin_lock(this) /* {0} */', 'spin_unlock(this) /* {0} */'))),
    Target('wait_interruptible', TC, r'int semaphore::wait_interruptible\(uint64_t count, Timeout timeout\)', rules=AT + [
        (r'splock\.lock\(\)', 'spin_lock(this)', 2), (r'splock\.unlock\(\)', 'spin_unlock(this)', 1),
        (r'auto& counter = CURRENT->semaphore_count;', 'uint64_t *counter = &CURRENT->semaphore_count;', 1),
        (r'(?<![\w>.*&])counter = ', '*counter = ', 2),
        (r'(?<![\w>.])try_subtract\(', 'SEM_try_subtract_c(this, ', 1), (r'(?<![\w>.])try_resume\(', 'SEM_try_resume(this, ', 1),
        (r'waitq::wait_defer\(timeout, spinlock_unlock, &splock\)', 'waitq_wait_defer(this)', 1),
        fields_rule(['m_ooo_resume'])],
        defers=dict(rettype='int'),
        marks={'count': 1, 0: dict(name='WI', frame=['this', 'ret', 'cnt', 'eno', 'errno', 'ret_', 'resumed', 'OTH_SIG', 'N_WAIT', 'N_RESUME', 'RESUME_ARG', 'RESUME_LOCKED', 'RESUME_AFTER_LAST_WAIT', 'WAS_RESUMED'],
               effects={'SEM_try_subtract_c': ['this'], 'waitq_wait_defer': ['this', 'errno', 'N_WAIT', 'RESUME_AFTER_LAST_WAIT', 'WAS_RESUMED'], 'spin_lock': ['this'], 'SEM_try_resume': ['N_RESUME', 'RESUME_ARG', 'RESUME_LOCKED', 'RESUME_AFTER_LAST_WAIT'], 'atomic_load': ['this']}, pure=[])}),
    Target('try_resume', TC, r'void semaphore::try_resume\(uint64_t cnt\)',
        scoped=dict(items=[(r'ScopedLockHead h\(this\);', 'struct thread2 *h = SLH_ctor(this);', 'SLH_dtor(h);'),
                           (r'SCOPED_LOCK\(th->lock\);', 'scan_lock(th);', 'scan_unlock(th);')], rettype='void'),
        defers=dict(rettype='void', scoped_lock=('wq_lock(this) /* {0} */', 'wq_unlock(this) /* {0} */')),
        rules=[(r'\(thread\*\)h', 'h', 1),
               # `auto& c = th->semaphore_count;` is only read; nothing between its definition and its uses writes the demand
               (r'auto& c = th->semaphore_count;', 'uint64_t c = th->semaphore_count;', 1),
               (r'(\bq\.th|\bth)->next\(\)', r'ring_next(this, \1)', 1),
               fields_rule(['q', 'm_ooo_resume'])],
        marks={'count': 2,
               0: dict(name='IO', frame=['cnt', 'h', 'th', 'c', 'SCANT', 'Q_LEN', 'WOKEN_SUM', 'N_WOKEN', 'N_TLOCK', 'HEADT', 'HEAD_DEMAND', 'this'],
                       effects={'SLH_ctor': ['HEADT', 'N_TLOCK', 'HEAD_DEMAND', 'this'], 'SLH_dtor': ['HEADT', 'N_TLOCK'],
                                'prelocked_thread_interrupt': ['HEADT', 'SCANT', 'Q_LEN', 'WOKEN_SUM', 'N_WOKEN']}, pure=[], ptr_targets={'h': ['HEADT'], 'th': ['HEADT']}),
               1: dict(name='SC', frame=['cnt', 'th', 'c', 'Q_LEN', 'WOKEN_SUM', 'N_WOKEN', 'N_TLOCK', 'SCANT', 'HEADT', 'FOREIGN', 'SCAN_POS'],
                       effects={'scan_lock': ['SCANT', 'HEADT', 'FOREIGN', 'N_TLOCK'], 'scan_unlock': ['SCANT', 'HEADT', 'FOREIGN', 'N_TLOCK'], 'ring_next': ['SCANT', 'SCAN_POS'],
                                'prelocked_thread_interrupt': ['HEADT', 'SCANT', 'Q_LEN', 'WOKEN_SUM', 'N_WOKEN']}, pure=[], ptr_targets={'th': ['SCANT', 'HEADT', 'FOREIGN']})}),
]
# a resumed waiter is woken with the reason -1 parked in its error_number (waitq::resume_one / semaphore::try_resume ->
# prelocked_thread_interrupt): thread_interrupt must not replace it.  The kernel is C04's (specs/C04/sched.c.in + its targets),
# re-run here so that this property sees a change of that function too.
import importlib.util as _ilu, os as _os
_sp = _ilu.spec_from_file_location('spec_C04_for_C02', _os.path.join(_os.path.dirname(__file__), '..', 'C04', 'spec.py'))
_c04 = _ilu.module_from_spec(_sp); _sp.loader.exec_module(_c04)
_need = ('t_expiration', 'sat_add', 'sat_sub', 't_get', 't_expired', 'prelocked_thread_interrupt', 'thread_interrupt', 'prepare_usleep', 'resume_threads_inlined', 'th_min', 'idle_wait')
TARGETS += [t for t in _c04.TARGETS if t.name in _need and t.name not in [x.name for x in TARGETS]]
UNITS = {'sem.c': 'sem.c.in', 'resume.c': 'resume.c.in', 'sched.c': '../C04/sched.c.in'}
PROOFS = [
    Proof('try_subtract', 'sem.c', 'h_try_subtract', kind='L', min_obligations=4),
    Proof('signal', 'sem.c', 'h_signal', kind='L', min_obligations=4),
    Proof('wait_interruptible', 'sem.c', 'h_wait_interruptible', kind='L', min_obligations=6, backend='cadical'),
    Proof('try_resume/in_order', 'resume.c', 'h_try_resume', kind='L', min_obligations=8),
    Proof('try_resume/out_of_order', 'resume.c', 'h_try_resume', kind='L', defines=['OOO'], min_obligations=8),
    Proof('resume/interrupt_keeps_reason', 'sched.c', 'h_interrupt', kind='L', defines=['STUB_PRELOCKED'], min_obligations=5),
    Proof('resume/wake_sleeper', 'sched.c', 'h_prelocked', kind='L', min_obligations=4),
    Proof('resume/prepare_usleep', 'sched.c', 'h_prepare_usleep', kind='L', min_obligations=6),
    Proof('lemma/conservation', 'sem.c', 'lemma_conservation', kind='L', min_obligations=2, backend='cadical'),
]
NATIVES = [Native('native', 'native.cpp', args_quick=[300], args_thorough=[20000], timeout=3000, link_photon=True, cxxflags=['-fpermissive'])]
REPLAY = 'native'
AUX_VIOLATION = True    # no native oracle: a failing loop-rule obligation is reported (no-failing-input-found), see DESIGN §4
TRUSTED = ['cbmc 6.11.0', 'lowering rules of specs/C02/spec.py']
NOT_DECIDED = ['no lost wake-up (liveness: a signal arriving between a failed try_subtract and the sleep), beyond "the waiter is queued while holding the lock"',
               'out-of-order resume scan: known finding (self-deadlock), see known_findings.txt', 'safe destruction after wait returns (object lifetime across the context switch)',
               'memory ordering (atomics are modelled sequentially consistent)']
ASSUMPTIONS = ['every writer of semaphore::m_count in /repo takes splock first (closed world over signal / wait_interruptible)']
