// C02 native layer: random single-vCPU histories of wait_interruptible / signal / thread_interrupt on the REAL photon::semaphore
// (libphoton built from /repo's working tree), checked against token accounting:
//   * taken by waits that returned 0  +  count()  ==  initial + signalled; a failed wait took nothing
//   * at quiescence no waiter stays blocked while the count covers the demand of the head (in-order) / of any waiter (out-of-order)
// Out-of-order histories run in a forked child under a watchdog (a hang is a result, not a crash of the campaign).
#include <atomic>
#include <mutex>
#include <thread>
#include <vector>
#include <string>
#include <memory>
#include <functional>
#include <unordered_map>
#include <map>
#include <set>
#include <random>
#include <algorithm>
#include <sstream>
#include <fstream>
#define protected public      /* the oracle reads the semaphore's wait queue head (waitq::q) */
#include "../../../repo/thread/thread.cpp"      // the real semaphore / scheduler, compiled from /repo's working tree
#include <cstdio>
#include <cstdlib>
#include <cstring>
#include <string>
#include <vector>
#include <fstream>
#include <sstream>
#include <errno.h>
#include <unistd.h>
#include <signal.h>
#include <sys/wait.h>

static std::string why;
static uint64_t rng_s;
static uint64_t rnd() { rng_s ^= rng_s << 13; rng_s ^= rng_s >> 7; rng_s ^= rng_s << 17; return rng_s; }
struct W { int id; uint64_t demand; int ret = 99; int err = 0; bool started = false, done = false; photon::thread* th = nullptr; };
static photon::semaphore* SEM;
static void* waiter(void* a) { auto w = (W*)a; w->started = true; errno = 0; w->ret = SEM->wait_interruptible(w->demand, 2000000); w->err = errno; w->done = true; return 0; }

// one history; returns false (why set) on a violation
static bool history(uint64_t seed, bool ooo, std::string* desc) {
    rng_s = seed * 0x9E3779B97F4A7C15ull + 12345; if (!rng_s) rng_s = 1;
    uint64_t initial = rnd() % 3;
    photon::semaphore sem(initial, !ooo); SEM = &sem;
    int nw = 1 + rnd() % 6, nops = 1 + rnd() % 8;
    std::vector<W> ws(nw);
    char b[64]; snprintf(b, sizeof b, "init=%lu W=[", (unsigned long)initial); *desc = b;
    for (int i = 0; i < nw; i++) { ws[i].id = i; ws[i].demand = 1 + rnd() % 4; snprintf(b, sizeof b, "%s%lu", i ? "," : "", (unsigned long)ws[i].demand); *desc += b; }
    *desc += "] ops=";
    for (auto& w : ws) { w.th = photon::thread_create(&waiter, &w); photon::thread_yield(); }   // queue order == index order
    uint64_t signalled = 0, main_taken = 0;
    auto quiescent_ok = [&]() -> bool {
        // quiescence: every waiter that has not returned is asleep again (a resumed waiter that has not run yet is READY, not blocked)
        for (int spin = 0; spin < 5000; spin++) {
            photon::thread_usleep(1000);
            bool settled = true;
            for (auto& w : ws) if (w.started && !w.done && photon::thread_stat(w.th) != photon::states::SLEEPING) settled = false;
            if (settled) break;
        }
        uint64_t c = sem.count();
        auto head = (photon::thread*)sem.q.th;              // the real queue head (a waiter that re-queued went to the tail)
        for (auto& w : ws) if (w.started && !w.done) {
            if (!ooo && w.th != head) continue;              // in-order: only the head counts
            if (w.demand <= c) { char m[160]; snprintf(m, sizeof m, "waiter %d (demand %lu%s) stays blocked while the count is %lu", w.id, (unsigned long)w.demand, ooo ? "" : ", head of the queue", (unsigned long)c); why = m; return false; }
        }
        return true;
    };
    bool ok = quiescent_ok();
    for (int k = 0; ok && k < nops; k++) {
        int op = rnd() % 4;
        if (op == 3) {      // a fresh wait by the orchestrating thread that is covered at once (it may overtake a waiter that was resumed but has not run yet)
            uint64_t n = 1 + rnd() % 2; snprintf(b, sizeof b, "take(%lu) ", (unsigned long)n); *desc += b;
            if (sem.count() >= n) { if (sem.wait_interruptible(n, 1000) != 0) { why = "a covered wait failed"; return false; } main_taken += n; }
        } else if (op == 0 || op == 1) { uint64_t n = 1 + rnd() % 5; signalled += n; snprintf(b, sizeof b, "signal(%lu) ", (unsigned long)n); *desc += b; sem.signal(n); }
        else { int i = rnd() % nw; snprintf(b, sizeof b, "interrupt(%d) ", i); *desc += b; if (!ws[i].done) photon::thread_interrupt(ws[i].th, 1000 + i); }
        if (rnd() % 2) { *desc += "| "; ok = quiescent_ok(); }      // otherwise the next operation runs before the woken waiters do
    }
    if (ok) ok = quiescent_ok();
    for (auto& w : ws) if (!w.done) photon::thread_interrupt(w.th, ECANCELED);
    for (int spin = 0; spin < 1000; spin++) { bool all = true; for (auto& w : ws) all = all && w.done; if (all) break; photon::thread_usleep(1000); }
    if (!ok) return false;
    uint64_t taken = main_taken;
    for (auto& w : ws) {
        if (!w.done) { why = "a waiter never returned"; return false; }
        if (w.ret == 0) taken += w.demand;
        else if (w.ret != -1 || (w.err != ECANCELED && w.err != 1000 + w.id)) { char m[128]; snprintf(m, sizeof m, "waiter %d returned %d errno %d", w.id, w.ret, w.err); why = m; return false; }
    }
    if (taken + sem.count() != initial + signalled) { char m[160]; snprintf(m, sizeof m, "taken %lu + count %lu != initial %lu + signalled %lu", (unsigned long)taken, (unsigned long)sem.count(), (unsigned long)initial, (unsigned long)signalled); why = m; return false; }
    return true;
}
// deterministic history of the known finding: A(5) B(1) C(1), signal(2), out-of-order mode
static bool history_ooo_fixed() {
    photon::semaphore sem(0, false); SEM = &sem;
    std::vector<W> ws(3); uint64_t d[3] = {5, 1, 1};
    for (int i = 0; i < 3; i++) { ws[i].id = i; ws[i].demand = d[i]; ws[i].th = photon::thread_create(&waiter, &ws[i]); photon::thread_yield(); }
    sem.signal(2);
    photon::thread_usleep(5000);
    bool ok = ws[1].done && ws[2].done && ws[1].ret == 0 && ws[2].ret == 0 && !ws[0].done;
    if (!ok) why = "out-of-order mode: B(1) and C(1) are not both resumed by signal(2) behind A(5)";
    for (auto& w : ws) if (!w.done) photon::thread_interrupt(w.th, ECANCELED);
    photon::thread_usleep(5000);
    return ok;
}
// deterministic history: W1(2) W2(1) queued, signal(2) resumes W1, the orchestrating thread takes 1 before W1 runs; W1 must sleep again
// (count 1 < 2) at the tail - the count now covers the new head W2, which must not stay blocked
static bool history_overtake_fixed() {
    photon::semaphore sem(0); SEM = &sem;
    std::vector<W> ws(2); uint64_t d[2] = {2, 1};
    for (int i = 0; i < 2; i++) { ws[i].id = i; ws[i].demand = d[i]; ws[i].th = photon::thread_create(&waiter, &ws[i]); photon::thread_yield(); }
    sem.signal(2);
    bool took = sem.wait_interruptible(1, 1000) == 0;
    photon::thread_usleep(5000);
    bool ok = took && ws[1].done && ws[1].ret == 0 && !ws[0].done && sem.count() == 0;
    if (!ok) { char m[200]; snprintf(m, sizeof m, "W1(2) W2(1), signal(2), take(1) before W1 runs: W2 %s, count %lu (W2 must be resumed: it is the head and the count covers it)", ws[1].done ? "done" : "still blocked", (unsigned long)sem.count()); why = m; }
    for (auto& w : ws) if (!w.done) photon::thread_interrupt(w.th, ECANCELED);
    photon::thread_usleep(5000);
    return ok;
}
// runs f in a child with its own photon instance; 0 ok, 1 violation, 2 hang/crash
template<class F> static int in_child(F f, int secs, std::string* msg) {
    int p[2]; if (pipe(p)) return 2;
    pid_t c = fork();
    if (c == 0) {
        close(p[0]); alarm(secs);
        if (photon::vcpu_init() < 0) _exit(9);
        set_log_output_level(ALOG_FATAL);
        bool ok = f();
        if (!ok) { ssize_t r_ = write(p[1], why.c_str(), why.size()); (void)r_; }
        _exit(ok ? 0 : 1);
    }
    close(p[1]); char buf[512]; ssize_t n = read(p[0], buf, sizeof buf - 1); if (n < 0) n = 0; buf[n] = 0; close(p[0]);
    int st = 0; waitpid(c, &st, 0);
    if (WIFEXITED(st) && WEXITSTATUS(st) == 0) return 0;
    if (WIFEXITED(st) && WEXITSTATUS(st) == 1) { *msg = buf; return 1; }
    *msg = WIFSIGNALED(st) && WTERMSIG(st) == SIGALRM ? "the signalling thread never returns (watchdog): self-deadlock on the wait-queue lock" : "the process crashed";
    return 2;
}
static bool is_known(const char* cls) { const char* k = getenv("VERIF_KNOWN"); return k && strstr(k, cls); }
int main(int argc, char** argv) {
    if (argc >= 3 && !strcmp(argv[1], "--replay")) {
        std::ifstream f(argv[2]); std::stringstream ss; ss << f.rdbuf(); std::string j = ss.str(), msg;
        int r = in_child([] { return history_ooo_fixed(); }, 5, &msg);
        { auto p_ = j.find("seed "); if (j.find("in_order") != std::string::npos && p_ != std::string::npos) { uint64_t sd = strtoull(j.c_str() + p_ + 5, 0, 10); static std::string dd; int r2 = in_child([&] { bool ok = history(sd, false, &dd); if (!ok) why = dd + ": " + why; return ok; }, 20, &msg); printf("%s %s\n", r2 ? "REPRODUCED" : "NOT-REPRODUCED", msg.c_str()); return 0; } }
        if (j.find("overtake") != std::string::npos || j.find("wait_interruptible") != std::string::npos) { int r2 = in_child([] { return history_overtake_fixed(); }, 10, &msg); printf("%s %s\n", r2 ? "REPRODUCED" : "NOT-REPRODUCED", msg.c_str()); return 0; }
        if (j.find("out_of_order") != std::string::npos || j.find("ooo") != std::string::npos) { printf("%s %s\n", r ? "REPRODUCED" : "NOT-REPRODUCED", msg.c_str()); return 0; }
        printf("NOT-REPRODUCED no concrete history for this obligation\n"); return 0;
    }
    if (argc >= 3 && !strcmp(argv[1], "--one")) {      // a single in-order history by seed, for debugging / replay
        uint64_t sd = strtoull(argv[2], 0, 10); std::string msg; static std::string dd;
        int r = in_child([&] { bool ok = history(sd, argc > 3, &dd); if (!ok) why = dd + ": " + why; else why = dd; fprintf(stderr, "%s\n", why.c_str()); return ok; }, 20, &msg);
        printf("%s %s\n", r ? "REPRODUCED" : "NOT-REPRODUCED", msg.c_str()); return 0;
    }
    uint64_t N = argc > 1 ? strtoull(argv[1], 0, 10) : 300, cases = 0;
    uint64_t seed0 = getenv("VERIF_SEED") ? strtoull(getenv("VERIF_SEED"), 0, 10) : 1;
    { std::string msg; int r = in_child([] { return history_overtake_fixed(); }, 10, &msg); ++cases;
      if (r) { for (auto& ch : msg) if (ch == '"') ch = '\''; printf("CEX overtake {\"kind\": \"overtake\", \"why\": \"%s\"}\n", msg.c_str()); return 3; } }
    // in-order histories, in batches per child
    for (uint64_t base = 0; base < N; base += 50) {
        std::string msg; static std::string d; static uint64_t bad;
        int r = in_child([&] { for (uint64_t s = base; s < base + 50 && s < N; s++) { std::string dd; if (!history(seed0 * 1000003 + s, false, &dd)) { why = "seed " + std::to_string(seed0 * 1000003 + s) + ": " + dd + ": " + why; return false; } } return true; }, 120, &msg);
        if (r) { for (auto& ch : msg) if (ch == '"') ch = '\''; printf("CEX in_order {\"kind\": \"in_order\", \"why\": \"%s\"}\n", msg.c_str()); return 3; }
        cases += 50;
    }
    // out-of-order mode: the fixed history of the known finding, then random ones
    {
        std::string msg; int r = in_child([] { return history_ooo_fixed(); }, 5, &msg);
        ++cases;
        if (r) {
            for (auto& ch : msg) if (ch == '"') ch = '\'';
            if (is_known("ooo_scan_deadlock")) printf("KNOWN ooo_scan_deadlock {\"kind\": \"out_of_order\", \"history\": \"waiters A(5) B(1) C(1), signal(2)\", \"why\": \"%s\"}\n", msg.c_str());
            else { printf("CEX ooo_scan_deadlock {\"kind\": \"out_of_order\", \"history\": \"waiters A(5) B(1) C(1), signal(2)\", \"why\": \"%s\"}\n", msg.c_str()); return 3; }
        } else {
            for (uint64_t s = 0; s < N / 4; s++) {
                std::string dd, m2; uint64_t sd = seed0 * 7000003 + s;
                int r2 = in_child([&] { return history(sd, true, &dd); }, 10, &m2);
                ++cases;
                if (r2) { for (auto& ch : m2) if (ch == '"') ch = '\''; printf("CEX out_of_order {\"kind\": \"out_of_order\", \"seed\": %lu, \"why\": \"%s\"}\n", (unsigned long)sd, m2.c_str()); return 3; }
            }
        }
    }
    printf("OK %lu (random single-vCPU histories of wait_interruptible/signal/thread_interrupt on the real semaphore: conservation, failed waits take nothing, no covered waiter stays blocked at quiescence)\n", (unsigned long)cases);
    return 0;
}
