// C16 native layer: the REAL AlignedFileAdaptor / FixedSizeLinearFile / VariableSizeLinearFile / StripeFile (compiled from
// /repo/fs/aligned-file.cpp and /repo/fs/xfile.cpp of the working tree) over in-memory files, against a plain std::string oracle:
//   * same bytes, return values and resulting size as one plain file holding the logical content
//   * every request that reaches the file under the aligned adaptor has aligned offset, length and (when asked) memory
//   * linear / striped: each byte of a request goes to the sub-file and position that hold that logical byte
#include "../../../repo/fs/virtual-file.cpp"
#include "../../../repo/fs/aligned-file.cpp"
#include "../../../repo/fs/xfile.cpp"
#include <cstdio>
#include <cstdlib>
#include <cstring>
#include <string>
#include <vector>
#include <fstream>
#include <sstream>
#include <sys/stat.h>
using namespace photon::fs;
static std::string why;
static bool GAP_WRITES = false;     // writes that start beyond end-of-file (outside the statement; --gap enables them)
#define FAIL(...) do { char m_[400]; snprintf(m_, sizeof m_, __VA_ARGS__); why = m_; return false; } while (0)
static uint64_t rs_;
static uint64_t rnd() { rs_ ^= rs_ << 13; rs_ ^= rs_ >> 7; rs_ ^= rs_ << 17; return rs_; }

struct MemFile : public VirtualFile {
    std::string data; uint32_t need_align = 0; bool need_mem = false; std::string viol; size_t limit = (size_t)-1;
    void chk(const void* buf, size_t count, off_t off, const char* op) {
        if (!need_align) return;
        char m[200];
        if ((off & (need_align - 1)) || (count & (need_align - 1)) || (need_mem && ((uintptr_t)buf & (need_align - 1)))) {
            snprintf(m, sizeof m, "%s(count=%zu, offset=%ld, buf%%A=%lu) is not aligned to %u", op, count, (long)off, (unsigned long)((uintptr_t)buf & (need_align - 1)), need_align); if (viol.empty()) viol = m; }
    }
    ssize_t rd(void* buf, size_t count, off_t off) {
        if (off < 0) return -1; if ((size_t)off >= data.size()) return 0;
        size_t n = std::min(count, data.size() - (size_t)off); memcpy(buf, data.data() + off, n); return n;
    }
    ssize_t wr(const void* buf, size_t count, off_t off) {
        if (off < 0) return -1; if ((size_t)off + count > limit) return -1;
        if (data.size() < (size_t)off + count) data.resize(off + count, 0);
        memcpy(&data[off], buf, count); return count;
    }
    ssize_t pread(void* buf, size_t count, off_t off) override { chk(buf, count, off, "pread"); return rd(buf, count, off); }
    ssize_t pwrite(const void* buf, size_t count, off_t off) override { chk(buf, count, off, "pwrite"); return wr(buf, count, off); }
    // a vectored request is aligned when its offset and TOTAL length are, and (memory alignment requested) every element's base and length
    void chkv(const struct iovec* iov, int n, off_t off, const char* op) {
        size_t tot = 0; for (int i = 0; i < n; i++) tot += iov[i].iov_len;
        chk(nullptr, tot, off, op);
        if (need_align && need_mem) for (int i = 0; i < n; i++) if (iov[i].iov_len) chk(iov[i].iov_base, iov[i].iov_len, 0, op);
    }
    ssize_t preadv(const struct iovec* iov, int n, off_t off) override { chkv(iov, n, off, "preadv"); ssize_t t = 0; for (int i = 0; i < n; i++) { ssize_t r = rd(iov[i].iov_base, iov[i].iov_len, off + t); if (r < 0) return r; t += r; if ((size_t)r < iov[i].iov_len) break; } return t; }
    ssize_t pwritev(const struct iovec* iov, int n, off_t off) override { chkv(iov, n, off, "pwritev"); ssize_t t = 0; for (int i = 0; i < n; i++) { ssize_t r = wr(iov[i].iov_base, iov[i].iov_len, off + t); if (r < 0) return r; t += r; } return t; }
    int fstat(struct stat* st) override { memset(st, 0, sizeof *st); st->st_size = data.size(); return 0; }
    int ftruncate(off_t len) override { data.resize(len, 0); return 0; }
    int fsync() override { return 0; } int fdatasync() override { return 0; } int close() override { return 0; }
    int fchmod(mode_t) override { return 0; } int fchown(uid_t, gid_t) override { return 0; }
    IFileSystem* filesystem() override { return nullptr; }
};
static std::string esc(const std::string& s, size_t at) { char b[64]; snprintf(b, sizeof b, "byte %zu", at); return b; }
static size_t first_diff(const std::string& a, const std::string& b) { size_t n = std::min(a.size(), b.size()); for (size_t i = 0; i < n; i++) if (a[i] != b[i]) return i; return n; }
static std::vector<struct iovec> split_iov(char* base, size_t count, bool aligned, uint32_t A, std::vector<std::string>& keep) {
    // splits [base, base+count) into 1..4 elements (some possibly empty)
    std::vector<struct iovec> v; size_t pos = 0; int parts = 1 + rnd() % 4;
    for (int i = 0; i < parts; i++) {
        size_t len = (i == parts - 1) ? count - pos : (count - pos ? rnd() % (count - pos + 1) : 0);
        v.push_back({base + pos, len}); pos += len;
        if (rnd() % 5 == 0) v.push_back({base + pos, 0});
    }
    return v;
}
// one aligned-adaptor case: initial content of len0 random bytes, then ops
static bool case_aligned(uint64_t seed, std::string* desc) {
    rs_ = seed * 0x9E3779B97F4A7C15ull + 77; if (!rs_) rs_ = 1;
    uint32_t A = 1u << (4 + rnd() % 4);          // 16..128: small blocks make boundaries frequent
    bool mem = rnd() % 2;
    MemFile f; f.need_align = A; f.need_mem = mem;
    size_t len0 = rnd() % (6 * A); f.data.resize(len0); for (auto& c : f.data) c = 'a' + rnd() % 26;
    std::string oracle = f.data;
    IFile* af = new_aligned_file_adaptor(&f, A, mem, false);
    if (!af) FAIL("adaptor refused alignment %u", A);
    char b[160]; snprintf(b, sizeof b, "A=%u mem=%d len0=%zu ops:", A, mem, len0); *desc = b;
    static char raw[8192 + 256];
    int nops = 1 + rnd() % 6; bool ok = true;
    for (int k = 0; ok && k < nops; k++) {
        int op = rnd() % 4; size_t off = rnd() % (7 * A), cnt = rnd() % (4 * A + 1); if (rnd() % 4 == 0) cnt = (cnt / A) * A; if (rnd() % 4 == 0) off = (off / A) * A;
        // the statement covers requests that start before end-of-file (writes: at or before it)
        if (op == 0 || op == 2) { if (oracle.empty()) continue; off %= oracle.size(); } else off %= (oracle.size() + 1 + (GAP_WRITES ? 3 * A : 0));
        char* buf = raw + 128 + (rnd() % 3 == 0 ? 0 : rnd() % 64); buf = (char*)(((uintptr_t)buf) & ~(uintptr_t)0) ;
        if (rnd() % 2) buf = (char*)((((uintptr_t)raw + 255) & ~(uintptr_t)127));   // an aligned buffer half of the time
        snprintf(b, sizeof b, " %s(off=%zu,cnt=%zu)", op == 0 ? "pread" : op == 1 ? "pwrite" : op == 2 ? "preadv" : "pwritev", off, cnt); *desc += b;
        f.viol.clear();
        if (op == 0 || op == 2) {
            memset(buf, '#', cnt + 8);
            ssize_t r; std::vector<std::string> keep;
            if (op == 0) r = af->pread(buf, cnt, off);
            else { auto v = split_iov(buf, cnt, false, A, keep); r = af->preadv(v.data(), (int)v.size(), off); }
            size_t exp = off >= oracle.size() ? 0 : std::min(cnt, oracle.size() - off);
            if (r != (ssize_t)exp) { snprintf(b, sizeof b, "returned %zd, a plain file returns %zu", r, exp); why = b; ok = false; break; }
            if (memcmp(buf, oracle.data() + (exp ? off : 0), exp) != 0) { why = "bytes read differ from the plain file's"; ok = false; break; }
            for (size_t i = exp; i < cnt + 8; i++) if (buf[i] != '#') { why = "read wrote beyond the bytes it returned"; ok = false; break; }
        } else {
            for (size_t i = 0; i < cnt; i++) buf[i] = 'A' + rnd() % 26;
            std::string src(buf, cnt);
            ssize_t r; std::vector<std::string> keep;
            if (op == 1) r = af->pwrite(buf, cnt, off);
            else { auto v = split_iov(buf, cnt, false, A, keep); r = af->pwritev(v.data(), (int)v.size(), off); }
            if (cnt) { if (oracle.size() < off + cnt) oracle.resize(off + cnt, 0); memcpy(&oracle[off], src.data(), cnt); }
            if (r != (ssize_t)cnt) { snprintf(b, sizeof b, "returned %zd, a plain file returns %zu", r, cnt); why = b; ok = false; break; }
            if (f.data.size() != oracle.size()) { snprintf(b, sizeof b, "file size %zu, a plain file would be %zu", f.data.size(), oracle.size()); why = b; ok = false; break; }
            if (f.data != oracle) { snprintf(b, sizeof b, "file content differs from the plain file's at byte %zu", first_diff(f.data, oracle)); why = b; ok = false; break; }
        }
        if (!f.viol.empty()) { why = "unaligned request reached the file: " + f.viol; ok = false; break; }
    }
    delete af;
    return ok;
}
// linear / striped composites: kind 0 fixed-size (unit U), 1 variable sizes, 2 striped (stripe S)
static bool case_composite(uint64_t seed, std::string* desc) {
    rs_ = seed * 0xD1B54A32D192ED03ull + 5; if (!rs_) rs_ = 1;
    int kind = rnd() % 3; size_t n = 1 + rnd() % 5;
    std::vector<MemFile> files(n); std::vector<IFile*> ptrs;
    uint64_t U = kind == 0 ? (rnd() % 2 ? (1u << (3 + rnd() % 4)) : 5 + rnd() % 60) : (1u << (3 + rnd() % 3));
    size_t per = kind == 2 ? U * (1 + rnd() % 4) : U;
    std::vector<size_t> sizes(n);
    for (size_t i = 0; i < n; i++) { sizes[i] = kind == 0 ? U : kind == 1 ? (rnd() % 50) : per; files[i].data.resize(sizes[i]); for (auto& c : files[i].data) c = 'a' + rnd() % 26; files[i].limit = sizes[i]; ptrs.push_back(&files[i]); }
    // the logical content
    auto logical = [&]() { std::string L; if (kind != 2) { for (auto& f : files) L += f.data; } else { size_t rows = per / U; for (size_t r = 0; r < rows; r++) for (size_t i = 0; i < n; i++) L += files[i].data.substr(r * U, U); } return L; };
    std::string oracle = logical();
    IFile* cf = kind == 0 ? new_fixed_size_linear_file(U, ptrs.data(), n) : kind == 1 ? new_linear_file(ptrs.data(), n) : new_stripe_file(U, ptrs.data(), n);
    char b[200]; snprintf(b, sizeof b, "%s n=%zu unit=%lu total=%zu ops:", kind == 0 ? "fixed" : kind == 1 ? "variable" : "stripe", n, (unsigned long)U, oracle.size()); *desc = b;
    if (!cf) { if (kind == 1 || oracle.size()) FAIL("composite file could not be created"); return true; }
    static char raw[4096]; bool ok = true; int nops = 1 + rnd() % 6;
    for (int k = 0; ok && k < nops; k++) {
        if (oracle.empty()) break;
        int op = rnd() % 4; bool vec = op >= 2; op &= 1; size_t off = rnd() % oracle.size(), cnt = rnd() % (oracle.size() + 8); if (cnt > 4000) cnt = 4000;
        snprintf(b, sizeof b, " %s%s(off=%zu,cnt=%zu)", op ? "pwrite" : "pread", vec ? "v" : "", off, cnt); *desc += b;
        ssize_t exp = off >= oracle.size() ? -1 : (ssize_t)std::min(cnt, oracle.size() - off);
        if (op == 0) {
            memset(raw, '#', sizeof raw);
            ssize_t r; std::vector<std::string> keep_;
            if (!vec) r = cf->pread(raw, cnt, off); else { auto v = split_iov(raw, cnt, false, 0, keep_); r = cf->preadv(v.data(), (int)v.size(), off); }
            if (r != exp) { snprintf(b, sizeof b, "returned %zd, expected %zd", r, exp); why = b; ok = false; break; }
            if (exp > 0 && memcmp(raw, oracle.data() + off, exp)) { size_t d = 0; while (raw[d] == oracle[off + d]) d++; snprintf(b, sizeof b, "byte %zu of the read differs from the logical content", d); why = b; ok = false; break; }
            for (size_t i = exp > 0 ? exp : 0; i < sizeof raw; i++) if (raw[i] != '#') { why = "read wrote beyond the bytes it returned"; ok = false; break; }
        } else {
            for (size_t i = 0; i < cnt; i++) raw[i] = 'A' + rnd() % 26;
            ssize_t r; std::vector<std::string> keep_;
            if (!vec) r = cf->pwrite(raw, cnt, off); else { auto v = split_iov(raw, cnt, false, 0, keep_); r = cf->pwritev(v.data(), (int)v.size(), off); }
            if (exp > 0) memcpy(&oracle[off], raw, exp);
            if (r != exp) { snprintf(b, sizeof b, "returned %zd, expected %zd", r, exp); why = b; ok = false; break; }
            for (size_t i = 0; i < n; i++) if (files[i].data.size() != sizes[i]) { snprintf(b, sizeof b, "sub-file %zu changed size (%zu -> %zu): a byte went outside it", i, sizes[i], files[i].data.size()); why = b; ok = false; break; }
            if (ok && logical() != oracle) { snprintf(b, sizeof b, "logical content differs at byte %zu: a byte went to the wrong sub-file or position", first_diff(logical(), oracle)); why = b; ok = false; break; }
        }
    }
    delete cf;
    return ok;
}
static long long jnum(const std::string& j, const char* key) { auto p = j.find(std::string("\"") + key + "\""); if (p == std::string::npos) return -1; p = j.find(':', p); return strtoll(j.c_str() + p + 1, 0, 10); }
int main(int argc, char** argv) {
    set_log_output_level(ALOG_FATAL + 1);
    if (argc >= 3 && !strcmp(argv[1], "--replay")) {
        std::ifstream f(argv[2]); std::stringstream ss; ss << f.rdbuf(); std::string j = ss.str(), d; bool ok = true;
        long long sd = jnum(j, "seed");
        if (sd >= 0 && j.find("\"aligned\"") != std::string::npos) ok = case_aligned(sd, &d);
        else if (sd >= 0) ok = case_composite(sd, &d);
        else { for (uint64_t s = 0; ok && s < 3000; s++) ok = case_aligned(s, &d) && case_composite(s, &d); }
        printf("%s %s %s\n", ok ? "NOT-REPRODUCED" : "REPRODUCED", d.c_str(), why.c_str()); return 0;
    }
    if (getenv("C16_GAP_WRITES")) GAP_WRITES = true;
    uint64_t N = argc > 1 ? strtoull(argv[1], 0, 10) : 20000, cases = 0;
    uint64_t seed0 = getenv("VERIF_SEED") ? strtoull(getenv("VERIF_SEED"), 0, 10) : 1;
    for (uint64_t s = 0; s < N; s++) {
        std::string d; uint64_t sd = seed0 * 1000003 + s;
        if (!case_aligned(sd, &d)) { for (auto& c : why) if (c == '"') c = '\''; printf("CEX aligned {\"kind\": \"aligned\", \"seed\": %lu, \"case\": \"%s\", \"why\": \"%s\"}\n", (unsigned long)sd, d.c_str(), why.c_str()); return 3; }
        ++cases;
        if (!case_composite(sd, &d)) { for (auto& c : why) if (c == '"') c = '\''; printf("CEX composite {\"kind\": \"composite\", \"seed\": %lu, \"case\": \"%s\", \"why\": \"%s\"}\n", (unsigned long)sd, d.c_str(), why.c_str()); return 3; }
        ++cases;
    }
    printf("OK %lu (random operation sequences on the real aligned adaptor (scalar + vectored) and fixed / variable / striped composites over in-memory files, against a plain-file oracle)\n", (unsigned long)cases);
    return 0;
}
