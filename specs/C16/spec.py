import sys, os, importlib.util
from engine.api import Target, Proof, Native
from engine.extract import fields_rule

ID = 'C16'
LEVEL = 'proof'
AF = 'fs/aligned-file.cpp'
H = 'fs/range-split.h'

# reuse the C15 lowering of range_split_power2
_sp = importlib.util.spec_from_file_location('spec_C15x', os.path.join(os.path.dirname(__file__), '..', 'C15', 'spec.py'))
_c15 = importlib.util.module_from_spec(_sp); _sp.loader.exec_module(_c15)
_xf_names = [t.name for t in _c15.TARGETS]
_want = ['sr_assign', 'sr_bool', 'sr_clear', 'pow2_divide', 'pow2_multiply', 'pow2_get_length', 'init', 'pow2_ctor', 'abo', 'aeo']
TARGETS = list(_c15.TARGETS)

RS_RULES = [
    (r'range_split_power2 rs\((.*?)\);', r'struct rs rs; pow2_ctor(&rs, \1);', 1),
    (r'rs\.is_aligned_ptr\((\w+)\)', r'rs_is_aligned_ptr(&rs, \1)', 1),
    (r'rs\.(is_aligned|aligned_length|aligned_begin_offset|aligned_end_offset)\(\)', r'rs_\1(&rs)', 3),
    (r'rs\.small_note\b', 'sub_range_bool(&rs.small_note)', 0),
    (r'LOG_ERR(?:OR|NO)_RETURN\(0, -1,[^;]*;', 'return -1;', 1),
    (r'DEFER\(free\(ptr\)\);', ';', 1),
    (r'(?<![\w>.])mem_alloc\(', 'mem_alloc(this, ', 1),
    (r'm_file->(pread|pwrite|fstat|ftruncate)\(', r'UL_\1(this->m_file, ', 2),
    fields_rule(['m_alignment', 'm_align_memory'], min_fires=2),
    (r'\bmemcpy\(', 'memcpy_(', 1), (r'\bmemset\(', 'memset_(', 0),
]
TARGETS += [
    Target('is_aligned0', H, r'bool is_aligned\(\) const', rules=[fields_rule(['begin_remainder', 'end_remainder'], min_fires=2)]),
    Target('is_aligned1', H, r'bool is_aligned\(uint64_t x\) const', rules=[
        (r'(?<![\w>.])divide\(x, down, rem, up\);', 'D_divide(this, x, &down, &rem, &up);', 1),
        (r'(?<![\w>.])multiply\(down\)', 'D_multiply(this, down, 0)', 1)]),
    Target('is_aligned_ptr', H, r'bool is_aligned_ptr\(const void\* buf\) const', rules=[
        (r'(?<![\w>.])is_aligned\(', 'rs_is_aligned_x(this, ', 1)]),
    Target('alen', H, r'uint64_t aligned_length\(\) const', rules=[
        fields_rule(['aend', 'abegin'], min_fires=2), (r'(?<![\w>.])multiply\((.*?)\);', r'D_multiply(this, \1, 0);', 1)]),
    Target('pread', AF, r'virtual ssize_t pread\(void \*buf, size_t count, off_t offset\) override', rules=RS_RULES),
    Target('pwrite', AF, r'virtual ssize_t pwrite\(const void \*buf, size_t count, off_t offset\) override', rules=RS_RULES + [
        (r'struct stat stat;', 'struct stat stat;', 1)]),
]
XF = 'fs/xfile.cpp'
PIO_RULES = [
    (r'LOG_ERRNO_RETURN\((?:EIO|0), -1,[^;]*;', 'return -1;', 2),
    fields_rule(['m_size'], min_fires=3),
    (r'for \(auto& x: rs\.all_parts\(\)\)\s*\{',
     'struct all_parts_t ap_ = { &rs }; struct all_it e_ = all_end(&ap_); struct all_it it_ = all_begin(&ap_);\n'
     ' for (; !all_it_eq(&it_, &e_); all_it_inc(&it_)) { PIO_TOP struct all_it *x = &it_;', 1),
    (r'\bx\.', 'x->', 5),
    (r'\(m_files\[([^\]]+)\]->\*piof\)\(', r'SUB_PIO(this, \1, ', 1),
    (r'\(char\*&\)buf \+= ([^;]+);', r'buf = (char*)buf + (\1);', 1),
]
PIO_MARK = {'count': 1, 0: dict(name='PIO', frame=['it_', 'buf', 'G_LPOS', 'N_SUB'],
            effects={'all_it_inc': ['it_'], 'SUB_PIO': ['G_LPOS', 'N_SUB']}, pure=['all_it_eq', 'AX_BLOCK', 'AX_PMONO', 'Q'])}
TARGETS += [
    Target('fixed_pio', XF, r'virtual ssize_t pio\(const ALogStringL& piof_name, FuncPIO piof,\s*void \*buf, size_t count, off_t offset\) override',
           index=0, count=3, rules=PIO_RULES + [(r'RangeSplit rs\(offset, count, m_unit_size\);', 'struct rs rs; RS_CTOR(&rs, offset, count);', 1)],
           marks=PIO_MARK),
    Target('var_pio', XF, r'virtual ssize_t pio\(const ALogStringL& piof_name, FuncPIO piof,\s*void \*buf, size_t count, off_t offset\) override',
           index=1, count=3, rules=PIO_RULES + [(r'range_split_vi rs\(offset, count, &m_key_points\[0\], m_key_points\.size\(\)\);', 'struct rs rs; RS_CTOR(&rs, offset, count);', 1)],
           marks=PIO_MARK),
]
UNITS = {'aligned.c': 'aligned.c.in', 'rs.c': '../C15/rs.c.in', 'xfile.c': 'xfile.c.in'}
CHECKS = ['--no-standard-checks', '--bounds-check', '--pointer-check', '--div-by-zero-check', '--signed-overflow-check',
          '--undefined-shift-check']
PROOFS = [
    Proof('aligned/pread', 'aligned.c', 'h_pread', kind='L', min_obligations=20, timeout=900, checks=CHECKS, backend='cadical'),
    Proof('aligned/pwrite', 'aligned.c', 'h_pwrite', kind='L', min_obligations=20, timeout=900, checks=CHECKS, backend='cadical'),
]
PROOFS += [
    Proof('linear/fixed_pio', 'xfile.c', 'h_fixed_pio', kind='L', min_obligations=20, timeout=900, backend='cadical'),
    Proof('linear/variable_pio', 'xfile.c', 'h_var_pio', kind='L', min_obligations=20, timeout=900, backend='cadical'),
]
NATIVES = [Native('native', 'native.cpp', args_quick=[20000], args_thorough=[2000000], timeout=3000, link_photon=True, cxxflags=['-fpermissive'])]
REPLAY = 'native'
AUX_VIOLATION = True    # no native oracle: a failing loop-rule obligation is reported (no-failing-input-found), see DESIGN §4
TRUSTED = ['cbmc 6.11.0', 'lowering rules of specs/C16/spec.py and specs/C15/spec.py']
NOT_DECIDED = []
ASSUMPTIONS = []
