#include "../../../repo/net/http/headers.cpp"
