#include "../../../repo/common/estring.cpp"
