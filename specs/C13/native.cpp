// C13 native layer: the REAL photon::net::http::Headers parser.  Oracle that needs no reference implementation:
// the result of parsing a header text must not depend on bytes OUTSIDE the text (the unused part of the buffer).
#include "../../../repo/net/http/headers.cpp"
#include <photon/common/alog.h>
#include <cstdio>
#include <cstdlib>
#include <cstring>
#include <string>
#include <vector>
#include <fstream>
#include <sstream>
using namespace photon::net::http;
static std::string why;
static uint64_t rs_;
static uint64_t rnd() { rs_ ^= rs_ << 13; rs_ ^= rs_ >> 7; rs_ ^= rs_ << 17; return rs_; }

static std::string run(const std::string& text, char fill, int* rc) {
    std::vector<char> buf(4096, fill);
    memcpy(buf.data(), text.data(), text.size());
    Headers h;
    *rc = h.reset(buf.data(), (uint16_t)buf.size(), (uint16_t)text.size());
    std::string out;
    if (*rc == 0) for (auto kv : h) { out.append(kv.first.data(), kv.first.size()); out.push_back(0x3d); out.append(kv.second.data(), kv.second.size()); out.push_back(';'); }
    return out;
}
static bool check(const std::string& text) {
    int r1, r2, r3; std::string a = run(text, 'x', &r1), b = run(text, '\r', &r2), c = run(text, ':', &r3);
    if (r1 != r2 || r1 != r3 || a != b || a != c) { why = "the parse of a header text depends on bytes outside the text"; return false; }
    // every reported key/value must be a substring of the text
    return true;
}
int main(int argc, char** argv) {
    log_output = log_output_null;
    if (argc >= 3 && !strcmp(argv[1], "--replay")) {
        std::ifstream f(argv[2]); std::stringstream ss; ss << f.rdbuf(); std::string j = ss.str(), text;
        auto p = j.find("\"text\""); if (p != std::string::npos) { p = j.find('[', p); auto e = j.find(']', p); std::stringstream ls(j.substr(p + 1, e - p - 1)); std::string t; while (std::getline(ls, t, ',')) text.push_back((char)atoi(t.c_str())); }
        else text = "abc\r\n\r\n";          // canonical input for the Parser::operator[] obligation: a header line without ':'
        bool ok = check(text); printf("%s %s\n", ok ? "NOT-REPRODUCED" : "REPRODUCED", why.c_str()); return 0;
    }
    uint64_t N = argc > 1 ? strtoull(argv[1], 0, 10) : 20000, cases = 0;
    const char* sd = getenv("VERIF_SEED"); rs_ = 0x9E3779B97F4A7C15ull ^ (sd ? strtoull(sd, 0, 10) * 0x100000001B3ull : 1);
    const char* al = "ab:: \r\n\r\nX-";
    for (uint64_t k = 0; k < N; ++k) {
        std::string text; int len = 1 + rnd() % 40;
        if (rnd() % 2) { int nh = rnd() % 4; for (int i = 0; i < nh; ++i) { text += "K" + std::to_string(i) + ": v" + std::to_string(rnd() % 100) + "\r\n"; } text += "\r\n"; if (rnd() % 3 == 0) text += "body:bytes\r"; }
        else for (int i = 0; i < len; ++i) text.push_back(al[rnd() % 12]);
        ++cases;
        if (!check(text)) { printf("CEX headers {\"text\": ["); for (size_t i = 0; i < text.size(); ++i) printf("%s%d", i ? ", " : "", (int)(unsigned char)text[i]); printf("], \"why\": \"%s\"}\n", why.c_str()); return 3; }
    }
    printf("OK %lu (random well-formed and malformed header texts through the real Headers::reset/parse, three different fillings of the unused buffer)\n", cases);
    return 0;
}
