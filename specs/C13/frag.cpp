// C13 native layer 2: fragmentation independence on the REAL http Response / body readers (message.cpp, body.cpp,
// headers.cpp compiled from /repo's current tree).  The oracle is the generator's ground truth: status code, header values and
// body bytes of a generated response must be parsed identically for EVERY split of its bytes into receive calls, the reader must
// report end-of-body, and the connection must be positioned exactly at the next message.
#include <photon/net/http/message.h>
#include <photon/common/alog.h>
#include <photon/net/base_socket.h>
#include <photon/photon.h>
#include <cstdio>
#include <cstdlib>
#include <cstring>
#include <string>
#include <vector>
#include <fstream>
#include <sstream>
using namespace photon::net::http;
static std::string why;
static uint64_t rs_;
static uint64_t rnd() { rs_ ^= rs_ << 13; rs_ ^= rs_ >> 7; rs_ ^= rs_ << 17; return rs_; }

class ScriptedStream : public photon::net::SocketStreamBase {
public:
    std::vector<std::string> segs; size_t idx = 0, off = 0; uint64_t m_timeout = -1;
    explicit ScriptedStream(std::vector<std::string> s) : segs(std::move(s)) {}
    ssize_t recv(void* buf, size_t count, int = 0) override {
        while (idx < segs.size() && off == segs[idx].size()) { idx++; off = 0; }
        if (idx >= segs.size() || count == 0) return 0;
        size_t n = std::min(count, segs[idx].size() - off); memcpy(buf, segs[idx].data() + off, n); off += n; return n;
    }
    ssize_t read(void* buf, size_t count) override { size_t d = 0; while (d < count) { auto r = recv((char*)buf + d, count - d); if (r <= 0) break; d += r; } return d; }
    ssize_t write(const void*, size_t count) override { return count; }
    ssize_t writev(const struct iovec* iov, int n) override { ssize_t s = 0; for (int i = 0; i < n; ++i) s += iov[i].iov_len; return s; }
    ssize_t send(const void*, size_t count, int = 0) override { return count; }
    uint64_t timeout() const override { return m_timeout; }
    void timeout(uint64_t t) override { m_timeout = t; }
    int close() override { return 0; }
    std::string rest() const { std::string r; for (size_t i = idx; i < segs.size(); ++i) r += (i == idx) ? segs[i].substr(off) : segs[i]; return r; }
};
struct Resp : public Response { using Response::Response; using Response::receive_header; };

struct Gen { std::string wire, body, hval; int status; bool chunked; };
// header names in three spellings (lookups are case-insensitive; the sorted index and the lookup must agree on the order)
static std::string spell(const std::string& n, int how) { std::string r = n; for (auto& c : r) c = how == 0 ? c : how == 1 ? (char)tolower(c) : (char)toupper(c); return r; }
static Gen gen() {
    Gen g; g.status = 200 + rnd() % 5; g.chunked = rnd() % 2; g.hval = "v" + std::to_string(rnd() % 100000);
    size_t bl = rnd() % 3 == 0 ? 0 : rnd() % 60; for (size_t i = 0; i < bl; ++i) g.body.push_back('a' + (i * 7 + bl) % 26);
    g.wire = "HTTP/1.1 " + std::to_string(g.status) + " OK\r\n" + spell("X-Val", rnd() % 3) + ": " + g.hval + "\r\n";
    // a few more headers with mixed spellings, so that the framing headers sit at different places of the sorted index
    static const char* extra[] = {"Accept-Ranges", "Date", "ETag", "Server", "Age", "Via", "Warning", "Link", "Allow", "Range"};
    int ne = rnd() % 5; for (int i = 0; i < ne; ++i) g.wire += spell(extra[rnd() % 10], rnd() % 3) + ": e" + std::to_string(i) + "\r\n";
    // a header whose value is empty (field-value is optional, RFC 7230 3.2) must not disturb its neighbours
    if (rnd() % 3 == 0) g.wire += spell("X-Empty", rnd() % 3) + (rnd() % 2 ? ":\r\n" : ": \r\n");
    // Connection: close together with explicit framing: the framing headers still delimit the body (3.3.3), what follows stays unread
    bool closing = rnd() % 4 == 0;
    if (closing) g.wire += spell("Connection", rnd() % 3) + ": close\r\n";
    std::string framing;
    if (g.chunked) {
        framing = spell("Transfer-Encoding", rnd() % 3) + ": chunked\r\n";
    } else framing = spell("Content-Length", rnd() % 3) + ": " + (rnd() % 5 == 0 ? "00" : "") + std::to_string(g.body.size()) + "\r\n";
    g.wire += framing;
    if (rnd() % 4 == 0) g.wire += spell("X-Empty2", rnd() % 3) + ":\r\n";          // also right behind the framing header
    int ne2 = rnd() % 3; for (int i = 0; i < ne2; ++i) g.wire += spell(extra[rnd() % 10], rnd() % 3) + ": f" + std::to_string(i) + "\r\n";
    g.wire += "\r\n";
    if (g.chunked) {
        size_t p = 0;
        while (p < g.body.size()) {
            size_t c = 1 + rnd() % 20; if (c > g.body.size() - p) c = g.body.size() - p; char hx[32];
            int style = rnd() % 4;      // RFC 7230 4.1: chunk-size is 1*HEXDIG (either case, leading zeros allowed), optionally followed by chunk extensions
            if (style == 0) snprintf(hx, sizeof hx, "%zx", c); else if (style == 1) snprintf(hx, sizeof hx, "%zX", c); else if (style == 2) snprintf(hx, sizeof hx, "%04zx", c); else snprintf(hx, sizeof hx, "%zx;ext=%d", c, (int)(rnd() % 10));
            g.wire += std::string(hx) + "\r\n" + g.body.substr(p, c) + "\r\n"; p += c;
        }
        g.wire += "0\r\n\r\n";
    } else g.wire += g.body;
    return g;
}
static const std::string NEXT = "HTTP/1.1 204 No Content\r\nX-Seq: 2\r\nContent-Length: 0\r\n\r\n";
static bool run_split(const Gen& g, const std::vector<size_t>& cuts, size_t piece) {
    std::vector<std::string> segs; size_t p = 0; for (auto c : cuts) { segs.push_back(g.wire.substr(p, c - p)); p = c; } segs.push_back(g.wire.substr(p)); segs.push_back(NEXT);
    ScriptedStream s(segs);
    {
        static char buf[16 * 1024]; Resp r1(buf, sizeof(buf)); r1.reset(&s, false);
        if (r1.receive_header() != 0) { why = "header not parsed"; return false; }
        if (r1.status_code() != g.status) { why = "status code differs"; return false; }
        if (std::string(r1.headers["X-Val"]) != g.hval) { why = "header value differs"; return false; }
        std::string body; char b[256];
        for (int guard = 0; guard < 100000; ++guard) { auto n = r1.read(b, piece); if (n <= 0) break; body.append(b, n); if (guard == 99999) { why = "endless body read"; return false; } }
        if (body != g.body) { why = "body bytes differ"; return false; }
        if (r1.read(b, 8) != 0) { why = "no end-of-body"; return false; }
    }
    if (s.rest() != NEXT) { why = "connection not positioned at the next message"; return false; }
    static char buf2[16 * 1024]; Resp r2(buf2, sizeof(buf2)); r2.reset(&s, false);
    if (r2.receive_header() != 0 || r2.status_code() != 204) { why = "next response on the connection not parsed"; return false; }
    return true;
}
static void emit(const Gen& g, const std::vector<size_t>& cuts, size_t piece) {
    printf("CEX frag {\"piece\": %zu, \"cuts\": [", piece); for (size_t i = 0; i < cuts.size(); ++i) printf("%s%zu", i ? ", " : "", cuts[i]);
    printf("], \"wire\": ["); for (size_t i = 0; i < g.wire.size(); ++i) printf("%s%d", i ? ", " : "", (int)(unsigned char)g.wire[i]);
    printf("], \"status\": %d, \"chunked\": %d, \"hlen\": %zu, \"blen\": %zu, \"why\": \"%s\"}\n", g.status, (int)g.chunked, g.hval.size(), g.body.size(), why.c_str());
}
int main(int argc, char** argv) {
    if (photon::init(photon::INIT_EVENT_DEFAULT, photon::INIT_IO_NONE)) { printf("photon init failed\n"); return 2; }
    log_output = log_output_null;
    if (argc >= 3 && !strcmp(argv[1], "--replay")) { printf("NOT-REPRODUCED (replay of fragmentation cases re-runs the campaign: run without arguments)\n"); return 0; }
    uint64_t N = argc > 1 ? strtoull(argv[1], 0, 10) : 150, cases = 0;
    const char* sd = getenv("VERIF_SEED"); rs_ = 0x9E3779B97F4A7C15ull ^ (sd ? strtoull(sd, 0, 10) * 0x100000001B3ull : 1);
    for (uint64_t k = 0; k < N; ++k) {
        Gen g = gen(); size_t n = g.wire.size();
        for (size_t piece : {(size_t)256, (size_t)1 + rnd() % 7}) {
            ++cases; if (!run_split(g, {}, piece)) { emit(g, {}, piece); return 3; }
            for (size_t c = 1; c < n; ++c) { ++cases; if (!run_split(g, {c}, piece)) { emit(g, {c}, piece); return 3; } }       // every 2-way split
            for (int t = 0; t < 20; ++t) { size_t a = 1 + rnd() % (n - 1), b = 1 + rnd() % (n - 1); if (a == b) continue; if (a > b) std::swap(a, b); ++cases; if (!run_split(g, {a, b}, piece)) { emit(g, {a, b}, piece); return 3; } }
        }
        { std::vector<size_t> all; for (size_t c = 1; c < n; ++c) all.push_back(c); ++cases; if (!run_split(g, all, 256)) { emit(g, all, 256); return 3; } }   // one byte at a time
    }
    printf("OK %lu (generated responses (Content-Length incl. 0 / leading zeros, chunked; empty-valued headers; Connection: close with explicit framing) x every 2-way split, random 3-way splits, byte-at-a-time; keep-alive positioning)\n", cases);
    photon::fini();
    return 0;
}
