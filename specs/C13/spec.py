from engine.api import Target, Proof, Native
from engine.extract import fields_rule
ID = 'C13'
LEVEL = 'proof'
P = 'net/http/parser.h'
HC = 'net/http/headers.cpp'
HH = 'net/http/headers.h'
B = 'net/http/body.cpp'
PF = fields_rule(['_ptr', '_end', '_begin'])
TARGETS = [
    Target('skip_chars', P, r'void skip_chars\(char c, bool repeatedly = false\)', rules=[PF, (r'^\{', '{ size_t P0_ = OFF(this->_ptr);', 1)],
           marks={'count': 1, 0: dict(name='SKIPC', frame=['this'])}),
    Target('skip_spaces', P, r'void skip_spaces\(bool repeatedly = false\)', rules=[PF, (r'\bisspace\(', 'isspace_(', 1), (r'^\{', '{ size_t P0_ = OFF(this->_ptr);', 1)],
           marks={'count': 1, 0: dict(name='SKIPS', frame=['this'], pure=['isspace_'])}),
    Target('extract_until_char', P, r'rstring_view16 extract_until_char\(char c\)', rules=[
        (r'__auto_type esv = estring_view\(_ptr, _end - _ptr\);', 'const char *esv_p = this->_ptr; size_t esv_n = this->_end - this->_ptr;', 1),
        (r'esv\.find_first_of\(c\)', 'sv_find_first_of(esv_p, esv_n, c)', 1), (r'esv\.npos', 'NPOS', 1), (r'esv\.size\(\)', 'esv_n', 1),
        PF, (r'return \{([^;{}]+)\};', r'return (struct rsv16){\1};', 2)]),
    Target('at', P, r'char operator\[\]\(size_t i\) const', rules=[PF]),
    Target('is_done', P, r'bool is_done\(\) (?=\{)', rules=[PF]),
    Target('kv_end', HH, r'KV\* kv_end\(\) const   (?=\{)', rules=[(r'\(KV\*\)', '(struct KV*)', 1), fields_rule(['m_buf', 'm_buf_capacity'], min_fires=2)]),
    Target('kv_begin', HH, r'KV\* kv_begin\(\) const (?=\{)', rules=[(r'kv_end\(\)', 'HB_kv_end(this)', 1), fields_rule(['m_kv_size'])]),
    Target('kv_add', HC, r'HeadersBase::KV\* HeadersBase::kv_add\(KV kv\)', rules=[
        (r'kv_begin\(\)', 'HB_kv_begin(this)', 1), (r'LOG_ERROR_RETURN\(ENOBUFS, NULL,[^;]*;', 'return NULL;', 1),
        fields_rule(['m_buf', 'm_buf_size', 'm_kv_size'], min_fires=3)]),
    Target('parse', HC, r'int HeadersBase::parse\(\)', rules=[
        (r'Parser p\(\{m_buf, m_buf_size\}\);', 'struct Parser p; p._begin = p._ptr = this->m_buf; p._end = p._begin + this->m_buf_size;', 1),
        (r'p\[0\]', 'Parser_at(&p, 0)', 1), (r'p\.is_done\(\)', 'Parser_is_done(&p)', 0),
        (r'__auto_type (k|v) = p\.extract_until_char\(', r'struct rsv16 \1 = Parser_extract_until_char(&p, ', 2),
        (r'p\.skip_chars\(\' \', true\);', "Parser_skip_chars_c(&p, ' ', true);", 1), (r"p\.skip_chars\('\\n'\);", "Parser_skip_chars_c(&p, '\\\\n', false);", 1),
        (r'p\.skip_spaces\(true\);', 'Parser_skip_spaces_c(&p, true);', 0), (r'p\.skip_chars\(\'\\t\', true\);', "Parser_skip_chars_c(&p, '\\t', true);", 0),
        (r'kv_add\(\{k, v\}\)', 'HB_kv_add_c(this, (struct KV){k, v})', 1),
        (r'LOG_ERROR_RETURN\(0, -1,[^;]*;', 'return -1;', 1),
        (r'std::sort\(kv_begin\(\), kv_end\(\), HA\(this\)\);', 'std_sort_kv(HB_kv_begin(this), HB_kv_end(this), this);', 1)],
        marks={'count': 1, 0: dict(name='PARSE', frame=['p', 'this', 'N_KV'],
               effects={'Parser_extract_until_char': ['p'], 'Parser_skip_chars_c': ['p'], 'Parser_skip_spaces_c': ['p'], 'HB_kv_add_c': ['this', 'N_KV']}, pure=['Parser_at', 'Parser_is_done'])}),
    Target('body_read', B, r'virtual ssize_t read\(void \*buf, size_t count\) override', index=0, count=2, rules=[
        fields_rule(['m_close_delim', 'm_body_remain', 'm_partial_body_remain', 'm_partial_body_buf'], min_fires=8),
        (r'std::min\(', 'std_min(', 1), (r'\bmemcpy\(', 'memcpy_(', 1), (r'm_stream->read\(', 'STREAM_read(this->m_stream, ', 1)]),
    Target('body_size', 'net/http/message.cpp', r'size_t Message::body_size\(\) const', rules=[
        (r'm_verb == Verb::HEAD', 'this->m_verb == VERB_HEAD', 1),
        (r'(?:auto|__auto_type) it = headers\.find\("Content-Length"\);', 'int it = HDR_find_cl(this);', 0), (r'(?:auto|__auto_type) it = headers\.find\("Content-Range"\);', 'int it = HDR_find_cr(this);', 0),
        (r'\bit = headers\.find\("Content-Range"\);', 'it = HDR_find_cr(this);', 0), (r'\bit = headers\.find\("Content-Length"\);', 'it = HDR_find_cl(this);', 0),
        (r'headers\.end\(\)', 'HDR_END', 2), (r'estring_view\(it\.second\(\)\)\.to_uint64\(\)', 'HDR_to_u64(it)', 0),
        (r'headers\.content_length\(\)', 'HDR_content_length(this)', 0), (r'headers\.chunked\(\)', 'HDR_chunked(this)', 1), (r'(?<![\w>.])m_abandon\b', 'this->m_abandon', 1),
        (r'sscanf\(it\.second\(\)\.data\(\), "bytes %zu-%zu", &start, &end\)', 'sscanf_range_(it, &start, &end)', 1),
        (r'sscanf\(it\.second\(\)\.data\(\), "bytes \*/%zu", &end\)', 'sscanf_total_(it, &end)', 1)]),
    Target('append_bytes_head', 'net/http/message.cpp', r'(?<=int Message::append_bytes\(uint16_t size\) \{)', region_end=r'Parser p\(', rules=[
        (r'LOG_ERROR_RETURN\((\w+), (-?\w+),[^;]*;', r'return \2;', 1),
        (r'std::string_view sv\(m_buf \+ m_buf_size, size\);', 'struct sv_ sv = { this->m_buf + this->m_buf_size, size };', 1),
        (r'std::string_view whole\(([^,]+), ([^;]+)\);', r'struct sv_ whole = { \1, (size_t)(\2) };', 1),
        (r'whole\.find\("\\r\\n\\r\\n"\)', 'sv_find_crlfcrlf(whole)', 1), (r'whole\.npos', 'SV_NPOS', 1),
        (r'sv\.begin\(\)', 'sv.data', 1), (r'sv\.size\(\)', 'sv.len', 1),
        (r'm_body = \{([^,]*), uint16_t\(([^}]*)\)\};', r'this->m_body = (struct rsv16){ \1, (uint16_t)(\2) };', 1),
        fields_rule(['m_buf', 'm_buf_size', 'm_buf_capacity', 'message_status'])]),
]
UNITS = {'msg.c': 'msg.c.in', 'http.c': 'http.c.in', 'bodysize.c': 'bodysize.c.in'}
PROOFS = [
    Proof('message/append_bytes', 'msg.c', 'h_append_bytes', kind='L', min_obligations=5, canaries=3),
    Proof('parser/cursor', 'http.c', 'h_parser', kind='L', min_obligations=5, backend='cadical'),
    Proof('headers/kv_add', 'http.c', 'h_kv_add', kind='L', min_obligations=3, backend='cadical'),
    Proof('headers/parse', 'http.c', 'h_parse', kind='L', min_obligations=5, backend='cadical', timeout=600),
    Proof('body/read', 'http.c', 'h_body_read', kind='L', min_obligations=5, backend='cadical'),
    Proof('message/body_size', 'bodysize.c', 'h_body_size', kind='L', min_obligations=4),
]
NATIVES = [Native('frag', 'frag.cpp', extra_src=['inc_body.cpp', 'inc_message.cpp', 'inc_headers.cpp', 'inc_estring.cpp'], args_quick=[150], args_thorough=[5000], timeout=1800, link_photon=True, ldflags=['-lssl', '-lcrypto', '-lcurl', '-laio', '-lz']),
           Native('native', 'native.cpp', args_quick=[20000], args_thorough=[2000000], timeout=1800, link_photon=True)]
REPLAY = 'native'
TRUSTED = ['cbmc 6.11.0', 'lowering rules of specs/C13/spec.py']
NOT_DECIDED = ['start-line / URL parsing, header lookup (estring_view, std::sort, case-insensitive compare)',
               'header-terminator search across fragments (Message::append_bytes)', 'chunked transfer coding reader/writer',
               'same parse for every fragmentation (claimed only through the kernels above)']
ASSUMPTIONS = ['message/append_bytes: the receive buffer is preceded by at least 3 addressable bytes (the code forms income - 3 before clamping it to m_buf; strictly that pointer is undefined when fewer than 3 bytes were received, it is never dereferenced)']
