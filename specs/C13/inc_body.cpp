#include "../../../repo/net/http/body.cpp"
