#include "../../../repo/net/http/message.cpp"
