from engine.api import Target, Proof, Native
from engine.extract import fields_rule
ID = 'C06'
LEVEL = 'proof'
TC = 'thread/thread.cpp'
TH = 'thread/thread.h'
QA = [(r'lock_state\.load\([^)]*\)', 'q_load(this)', 0),
      (r'lock_state\.compare_exchange_(?:strong|weak)\(\s*(\w+),\s*([^,]+),\s*std::memory_order_\w+,\s*std::memory_order_\w+\)', r'q_cas(this, &\1, \2)', 0),
      (r'lock_state\.fetch_sub\((\w+), [^)]*\)', r'q_fetch_sub(this, \1)', 0), (r'lock_state\.fetch_add\((\w+), [^)]*\)', r'q_fetch_sub(this, -(int64_t)(\1))', 0),
      (r'lock_state\.store\((\w+), [^)]*\)', r'q_store(this, \1)', 0),
      (r'(?<![\w>.])try_wake\(\)', 'Q_try_wake(this)', 0),
      (r'cv_unique\.notify_one\(\)', 'q_notify_one_unique(this)', 0), (r'cv_shared\.notify_all\(\)', 'q_notify_all_shared(this)', 0)]
SL = dict(rettype='void', scoped_lock=('spin_lock() /* {0} */', 'spin_unlock() /* {0} */'))
TARGETS = [
    Target('rw_lock', TC, r'int rwlock::lock\(int mode, Timeout timeout\)', rules=[
        (r'LOG_ERROR_RETURN\(EINVAL, -1,[^;]*;', '{ ret_ = (-1); goto exit_; }', 1),
        (r'__auto_type bkup = mark;', '__auto_type bkup = mark; int BK0_ = bkup;', 1),
        (r'cvar\.q\.th', 'QTH(this)', 1), (r'cvar\.wait\(lock, timeout\)', 'cvar_wait(this)', 1),
        (r'#if defined\(__x86_64__\).*?#endif', 'ROL1(op);', 1),
        (r'(?<![\w>.])state \+= op;', '{ STATE_AT_WRITE = this->state; if (N_WRITES < 2) N_WRITES++; this->state += op; }', 1),
        (r'\(op & state\)', '(op & this->state)', 1), (r'while \(op & state\)', 'while (op & this->state)', 0)],
        pre_rules=[(r'scoped_lock lock\(mtx\);', 'mtx_lock(); DEFER(mtx_unlock());', 1)],
        defers=dict(rettype='int'),
        marks={'count': 1, 0: dict(name='RWL', frame=['this', 'ret', 'ret_', 'N_WAITS', 'WAIT_FAIL'], effects={'cvar_wait': ['this', 'N_WAITS', 'WAIT_FAIL']}, pure=[])}),
    Target('rw_unlock', TC, r'int rwlock::unlock\(\)', rules=[
        (r'^\{', '{ int QH0_ = this->q_head;', 1),
        (r'cvar\.q\.th->rwlock_mark', 'QTH_MARK(this)', 2), (r'cvar\.q\.th', 'QTH(this)', 2),
        (r'cvar\.notify_one\(\)', 'cvar_notify_one(this)', 2), fields_rule(['state'], min_fires=4)],
        pre_rules=[(r'scoped_lock lock\(mtx\);', 'mtx_lock(); DEFER(mtx_unlock());', 1)], defers=dict(rettype='int'),
        marks={'count': 1, 0: dict(name='RWU', frame=['this', 'N_NOTIFY'], effects={'cvar_notify_one': ['this', 'N_NOTIFY']}, pure=['QTH', 'QTH_MARK'])}),
    Target('q_trylock', TH, r'bool __trylock\(\) (?=\{)', rules=QA),
    Target('q_trylock_shared', TH, r'bool __trylock_shared\(\) (?=\{)', rules=QA,
           marks={'count': 1, 0: dict(name='QTS', frame=['state', 'this', 'Q_LAST_SEEN'], effects={'q_cas': ['state', 'this', 'Q_LAST_SEEN']}, pure=[])}),
    Target('q_unlock_unique', TH, r'void __unlock_unique\(\) (?=\{)', rules=QA, defers=SL),
    Target('q_try_wake', TH, r'void try_wake\(\) (?=\{)', rules=QA),
    Target('q_unlock_shared', TH, r'void __unlock_shared\(\) (?=\{)', rules=QA,
           scoped=dict(items=[(r'SCOPED_LOCK\(spin\);', 'spin_lock();', 'spin_unlock();')], rettype='void')),
    Target('q_unlock', TH, r'int unlock\(\) (?=\{\s*auto cur_state)', rules=QA + [
        (r'__unlock_unique\(\)', 'Q_unlock_unique(this)', 1), (r'__unlock_shared\(\)', 'Q_unlock_shared(this)', 1)]),
    Target('q_do_lock', TH, r'int do_lock\(TryFunc&& try_fn, photon::condition_variable& cv,\s*Timeout timeout\)', rules=[
        (r'try_fn\(\)', 'TRY_FN()', 2), (r'cv\.wait\(spin, timeout\)', 'q_cv_wait(this)', 1)],
        defers=dict(rettype='int', scoped_lock=('spin_lock() /* {0} */', 'spin_unlock() /* {0} */')),
        marks={'count': 1, 0: dict(name='QDL', frame=['this', 'ret', 'ret_', 'N_CVWAIT', 'CV_FAIL', 'Q_LAST_SEEN'],
               effects={'TRY_FN': ['this', 'Q_LAST_SEEN'], 'q_cv_wait': ['N_CVWAIT', 'CV_FAIL']}, pure=[])}),
    Target('q_lock', TH, r'int lock\(int mode, Timeout timeout = \{\}\) (?=\{\s*if \(mode == WLOCK\)\s*return do_lock)', rules=[
        (r'do_lock\(\[this\] \{ return (__trylock\w*)\(\); \}, (cv_\w+),\s*timeout\)', r'do_lock_stub(this, TRYID_\1, CVID_\2)', 1)]),
]
UNITS = {'rw.c': 'rw.c.in'}
PROOFS = [
    Proof('rwlock/lock', 'rw.c', 'h_rw_lock', kind='L', min_obligations=5, backend='cadical'),
    Proof('rwlock/unlock', 'rw.c', 'h_rw_unlock', kind='L', min_obligations=4, backend='cadical'),
    Proof('qrwlock/try', 'rw.c', 'h_q_try', kind='L', min_obligations=3, backend='cadical'),
    Proof('qrwlock/unlock', 'rw.c', 'h_q_unlock', kind='L', min_obligations=3, backend='cadical'),
    Proof('qrwlock/do_lock', 'rw.c', 'h_q_do_lock', kind='L', min_obligations=3, backend='cadical'),
    Proof('qrwlock/do_lock_shared', 'rw.c', 'h_q_do_lock_shared', kind='L', min_obligations=3),
    Proof('qrwlock/lock_dispatch', 'rw.c', 'h_q_lock', kind='L', min_obligations=3),
    Proof('lemma/exclusion', 'rw.c', 'lemma_rw_exclusion', kind='L', min_obligations=1, backend='cadical'),
]
NATIVES = [Native('native', 'native.cpp', args_quick=[400], args_thorough=[20000], timeout=3000, link_photon=True, cxxflags=['-fpermissive'])]
REPLAY = 'native'
AUX_VIOLATION = True    # no native oracle: a failing loop-rule obligation is reported (no-failing-input-found), see DESIGN §4
TRUSTED = ['cbmc 6.11.0', 'lowering rules of specs/C06/spec.py']
NOT_DECIDED = ['admission after the last unlock as a liveness property (wake-up delivery)', 'timeouts racing with admission across context switches',
               'memory ordering (atomics modelled sequentially consistent)', 'the shared-lock instantiation of qrwlock::do_lock (same template text, unique instantiation proved)']
ASSUMPTIONS = ['rely for qrwlock: other threads only perform the four allowed transitions and respect what this thread holds (proved for every writer function of qrwlock here; closed world)']
