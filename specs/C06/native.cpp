// C06 native layer: random single-vCPU histories on the REAL photon::rwlock and photon::qrwlock (compiled from the working tree's
// thread.cpp / thread.h): W workers each run a script of lock(mode, timeout) / hold / unlock steps, the orchestrating thread
// interrupts sleeping lockers at random moments.  Oracle, checked inside the critical sections and at the end:
//   * while a writer is inside nobody else is; readers may share
//   * lock() == 0 exactly for the holders counted inside; a failed lock (timeout / interrupt) leaves the lock usable: after
//     everybody is done a write lock is granted at once
//   * nobody stays blocked on a free lock (every worker finishes; watchdog in a forked child)
#include "../../../repo/thread/thread.cpp"
#include <cstdio>
#include <cstdlib>
#include <cstring>
#include <string>
#include <vector>
#include <fstream>
#include <sstream>
#include <unistd.h>
#include <sys/wait.h>
using namespace photon;
static std::string why;
static uint64_t rs_;
static uint64_t rnd() { rs_ ^= rs_ << 13; rs_ ^= rs_ >> 7; rs_ ^= rs_ << 17; return rs_; }
struct Step { int mode; uint64_t timeout_us; uint64_t hold_us; };
template<class L> struct World { L lock; int readers = 0, writers = 0; bool bad = false; std::string badwhy; int done = 0; };
template<class L> struct Worker { World<L>* w; std::vector<Step> script; photon::thread* th = nullptr; bool finished = false; };
template<class L> static void* worker_fn(void* a) {
    auto me = (Worker<L>*)a; auto w = me->w;
    for (auto& s : me->script) {
        int r = w->lock.lock(s.mode, s.timeout_us);
        if (r == 0) {
            if (s.mode == WLOCK) { if (w->readers || w->writers) { w->bad = true; w->badwhy = "a writer was admitted while " + std::to_string(w->readers) + " reader(s) and " + std::to_string(w->writers) + " writer(s) hold the lock"; } w->writers++; }
            else { if (w->writers) { w->bad = true; w->badwhy = "a reader was admitted while a writer holds the lock"; } w->readers++; }
            if (s.hold_us) photon::thread_usleep(s.hold_us); else photon::thread_yield();
            if (s.mode == WLOCK) w->writers--; else w->readers--;
            if (w->lock.unlock() != 0) { w->bad = true; w->badwhy = "unlock() of a held lock failed"; }
        } else if (r != -1) { w->bad = true; w->badwhy = "lock() returned neither 0 nor -1"; }
        if (rnd() % 3 == 0) photon::thread_yield();
    }
    me->finished = true; w->done++; return 0;
}
template<class L> static bool history(uint64_t seed, const char* name, std::string* desc) {
    rs_ = seed * 0x9E3779B97F4A7C15ull + 9; if (!rs_) rs_ = 1;
    World<L> w; int nw = 2 + rnd() % 4; std::vector<Worker<L>> ws(nw); char b[96];
    snprintf(b, sizeof b, "%s workers=%d:", name, nw); *desc = b;
    for (auto& k : ws) { k.w = &w; int n = 1 + rnd() % 4; for (int i = 0; i < n; i++) { Step s; s.mode = rnd() % 3 == 0 ? WLOCK : RLOCK; s.timeout_us = rnd() % 3 == 0 ? 1000 + rnd() % 3000 : (uint64_t)-1; s.hold_us = rnd() % 2 ? 0 : 500 + rnd() % 2000; k.script.push_back(s); snprintf(b, sizeof b, " %c%s", s.mode == WLOCK ? 'W' : 'R', s.timeout_us == (uint64_t)-1 ? "" : "t"); *desc += b; } *desc += ";"; }
    for (auto& k : ws) k.th = photon::thread_create(&worker_fn<L>, &k);
    for (int round = 0; round < 4000 && w.done < nw; round++) {
        photon::thread_usleep(300);
        if (rnd() % 4 == 0) { auto& k = ws[rnd() % nw]; if (!k.finished && photon::thread_stat(k.th) == photon::states::SLEEPING) photon::thread_interrupt(k.th, EINTR); }
    }
    if (w.bad) { why = w.badwhy; return false; }
    if (w.done < nw) { why = "a worker is still blocked although every holder has left"; return false; }
    // a failed lock left no trace: the lock is free now
    if (w.lock.lock(WLOCK, 0) != 0 && w.lock.lock(WLOCK, 2000) != 0) { why = "after every holder unlocked a write lock is not granted: some failed or finished lock left the state word changed"; return false; }
    w.lock.unlock();
    return true;
}
template<class F> static int in_child(F f, int secs, std::string* msg) {
    int p[2]; if (pipe(p)) return 2;
    pid_t c = fork();
    if (c == 0) { close(p[0]); alarm(secs); if (photon::vcpu_init() < 0) _exit(9); bool ok = f(); if (!ok) { ssize_t r_ = write(p[1], why.c_str(), why.size()); (void)r_; } _exit(ok ? 0 : 1); }
    close(p[1]); char buf[700]; ssize_t n = read(p[0], buf, sizeof buf - 1); if (n < 0) n = 0; buf[n] = 0; close(p[0]);
    int st = 0; waitpid(c, &st, 0);
    if (WIFEXITED(st) && WEXITSTATUS(st) == 0) return 0;
    if (WIFEXITED(st) && WEXITSTATUS(st) == 1) { *msg = buf; return 1; }
    *msg = "hang or crash (watchdog)"; return 2;
}
static bool one(uint64_t sd, std::string* d) { return (sd & 1) ? history<photon::rwlock>(sd, "rwlock", d) : history<photon::qrwlock>(sd, "qrwlock", d); }
int main(int argc, char** argv) {
    set_log_output_level(ALOG_FATAL + 1);
    uint64_t seed0 = getenv("VERIF_SEED") ? strtoull(getenv("VERIF_SEED"), 0, 10) : 1;
    if (argc >= 3 && !strcmp(argv[1], "--replay")) {
        std::ifstream f(argv[2]); std::stringstream ss; ss << f.rdbuf(); std::string j = ss.str(), msg; auto p_ = j.find("\"seed\": ");
        if (p_ == std::string::npos) { printf("NOT-REPRODUCED no concrete history for this obligation\n"); return 0; }
        uint64_t sd = strtoull(j.c_str() + p_ + 8, 0, 10); static std::string d;
        int r = in_child([&] { bool ok = one(sd, &d); if (!ok) why = d + ": " + why; return ok; }, 60, &msg);
        printf("%s %s\n", r ? "REPRODUCED" : "NOT-REPRODUCED", msg.c_str()); return 0;
    }
    uint64_t N = argc > 1 ? strtoull(argv[1], 0, 10) : 400, cases = 0;
    for (uint64_t base = 0; base < N; base += 40) {
        std::string msg; static std::string d;
        int r = in_child([&] { for (uint64_t s = base; s < base + 40 && s < N; s++) { d.clear(); uint64_t sd = seed0 * 1000003 + s; if (!one(sd, &d)) { why = std::to_string(sd) + "|" + d + ": " + why; return false; } } return true; }, 300, &msg);
        if (r) { uint64_t sd = strtoull(msg.c_str(), 0, 10); for (auto& ch : msg) if (ch == '"') ch = '\''; printf("CEX rw {\"kind\": \"rw\", \"seed\": %lu, \"why\": \"%s\"}\n", (unsigned long)sd, msg.c_str()); return 3; }
        cases += 40;
    }
    printf("OK %lu (random single-vCPU histories of lock / timed lock / interrupt / unlock on the real rwlock and qrwlock: exclusion, failed locks leave no trace, nobody left blocked)\n", (unsigned long)cases);
    return 0;
}
