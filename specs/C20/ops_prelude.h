/* C20 — every forwarding operation of SubFileSystem (generated unit; bodies lowered from /repo/fs/subfs.cpp).
 * PathCat is used through its contract (proved in path.c): on return the path variable is NULL (rejected) or points to the
 * PathCat object's own buffer, which holds base ++ path for a non-escaping path.  The stub for the underlying filesystem
 * ASSERTS the property on every character-pointer argument it receives: it is never a caller-supplied path. */
#include <stdint.h>
#include <stdbool.h>
#include <stddef.h>
#include <sys/types.h>
#include <sys/stat.h>
#include <sys/time.h>
struct statfs; struct statvfs; struct utimbuf;
#ifndef PATH_MAX
#define PATH_MAX 4096
#endif
long nondet_long(void); bool nondet_bool(void);
struct SubFileSystem { void *underlayfs; void *underlay_xattrfs; };
struct PathCat { char buf[PATH_MAX]; };
char RAWOBJ1[16], RAWOBJ2[16], EXEMPTOBJ[16], OTHERBUF[16];
const char *RAW1, *RAW2, *EXEMPTP;
int UL_N, N_CAT, N_RAW;
static void ops_setup(void) { RAW1 = RAWOBJ1; RAW2 = RAWOBJ2; EXEMPTP = EXEMPTOBJ; UL_N = 0; N_CAT = 0; }
/* contract of PathCat::PathCat(subfs, path) */
static void PathCat_ctor_c(struct PathCat *this, const struct SubFileSystem *subfs, const char **path)
{
    __CPROVER_assert(__CPROVER_same_object(*path, RAWOBJ1) || __CPROVER_same_object(*path, RAWOBJ2), "PathCat is applied to a caller-supplied path");
    N_CAT++;
    *path = nondet_bool() ? (const char *)0 : (const char *)this->buf;
}
static int chk_path_(const char *p)
{
    __CPROVER_assert(!__CPROVER_same_object(p, RAWOBJ1) && !__CPROVER_same_object(p, RAWOBJ2),
                     "no caller-supplied path reaches the underlying filesystem: only NULL (rejected) or a PathCat buffer");
    return 0;
}
#define CHK(x) _Generic((x), const char *: chk_path_((const char *)(uintptr_t)(x)), char *: chk_path_((const char *)(uintptr_t)(x)), default: 0)
#define UL_1(a) (CHK(a))
#define UL_2(a, b) (CHK(a), CHK(b))
#define UL_3(a, b, c) (CHK(a), CHK(b), CHK(c))
#define UL_4(a, b, c, d) (CHK(a), CHK(b), CHK(c), CHK(d))
#define UL_5(a, b, c, d, e) (CHK(a), CHK(b), CHK(c), CHK(d), CHK(e))
#define UL_SEL(_1, _2, _3, _4, _5, N, ...) N
#define UL_CALL(...) (UL_N++, UL_SEL(__VA_ARGS__, UL_5, UL_4, UL_3, UL_2, UL_1)(__VA_ARGS__), nondet_long())
