// C20 native layer: the REAL Path::level_valid and SubFileSystem::PathCat (compiled from /repo's current
// fs/path.cpp and fs/subfs.cpp) against an independent lexical resolver.
#include "../../../repo/fs/path.cpp"
#include "../../../repo/fs/subfs.cpp"
#include <cstdio>
#include <cstdlib>
#include <cstring>
#include <string>
#include <vector>
#include <fstream>
#include <sstream>
using namespace photon::fs;

static bool ref_escapes(const std::string& s) {
    int depth = 0; size_t i = 0, n = s.size();
    while (i < n) {
        while (i < n && s[i] == '/') i++;
        if (i >= n) break;
        size_t b = i;
        while (i < n && s[i] != '/') i++;
        std::string c = s.substr(b, i - b);
        if (c == ".") continue;
        if (c == "..") { if (--depth < 0) return true; }
        else depth++;
    }
    return false;
}
// lexical resolution of an absolute path: returns false if it ever climbs above `base` components
static bool resolves_inside(const std::string& full, const std::string& base) {
    auto split = [](const std::string& p) { std::vector<std::string> v; size_t i = 0; while (i < p.size()) { while (i < p.size() && p[i] == '/') i++; size_t b = i; while (i < p.size() && p[i] != '/') i++; if (i > b) v.push_back(p.substr(b, i - b)); } return v; };
    auto bc = split(base), fc = split(full);
    std::vector<std::string> st;
    size_t consumed = 0;
    for (auto& c : fc) {
        ++consumed;
        if (c == ".") continue;
        if (c == "..") { if (st.empty()) return false; st.pop_back(); }
        else st.push_back(c);
        // once past the base prefix, the stack must keep the base as a prefix
        if (consumed >= bc.size()) {
            if (st.size() < bc.size()) return false;
            for (size_t k = 0; k < bc.size(); ++k) if (st[k] != bc[k]) return false;
        }
    }
    return true;
}
static std::string why;
static bool check_one(const std::string& s) {
    bool esc = ref_escapes(s);
    if (path_level_valid(s.c_str()) != !esc) { why = esc ? "escaping path accepted by level_valid" : "legal path refused by level_valid"; return false; }
    static SubFileSystem* fs = nullptr;
    static const char* BASE = "/base/dir/";
    if (!fs) { fs = (SubFileSystem*)calloc(1, sizeof(SubFileSystem)); strcpy(fs->base_path, BASE); fs->base_path_len = strlen(BASE); }
    const char* p = s.c_str();
    SubFileSystem::PathCat cat(fs, p);
    bool fits = s.size() + strlen(BASE) < sizeof(cat.buf) - 2;
    if (p == nullptr) {
        if (!esc && fits) { why = "legal path rejected by PathCat"; return false; }
        return true;
    }
    if (esc) { why = "escaping path forwarded by PathCat"; return false; }
    if (p != cat.buf || std::string(p) != std::string(BASE) + s) { why = "forwarded path is not base + path"; return false; }
    if (!resolves_inside(p, BASE)) { why = "forwarded path resolves outside the base directory"; return false; }
    return true;
}
static void emit(const std::string& s) {
    printf("CEX path {\"in_s\": [");
    for (size_t i = 0; i < s.size(); ++i) printf("%s%d", i ? ", " : "", (int)(unsigned char)s[i]);
    printf("], \"why\": \"%s\"}\n", why.c_str());
}
static uint64_t rs_;
static uint64_t rnd() { rs_ ^= rs_ << 13; rs_ ^= rs_ >> 7; rs_ ^= rs_ << 17; return rs_; }
int main(int argc, char** argv) {
    log_output = log_output_null;
    if (argc >= 3 && !strcmp(argv[1], "--replay")) {
        std::ifstream f(argv[2]); std::stringstream ss; ss << f.rdbuf(); std::string j = ss.str();
        auto p = j.find("\"in_s\"");
        std::string s;
        if (p != std::string::npos) {
            p = j.find('[', p); auto e = j.find(']', p);
            std::string body = j.substr(p + 1, e - p - 1);
            std::stringstream ls(body); std::string tok;
            while (std::getline(ls, tok, ',')) { int v = atoi(tok.c_str()); if (v == 0) break; s.push_back((char)v); }
        }
        bool ok = check_one(s);
        printf("%s path=\"%s\" %s\n", ok ? "NOT-REPRODUCED" : "REPRODUCED", s.c_str(), why.c_str());
        return 0;
    }
    int maxlen = argc > 1 ? atoi(argv[1]) : 9;
    uint64_t nrand = argc > 2 ? strtoull(argv[2], 0, 10) : 20000, cases = 0;
    const char* sd = getenv("VERIF_SEED");
    rs_ = 0x9E3779B97F4A7C15ull ^ (sd ? strtoull(sd, 0, 10) * 0x100000001B3ull : 1);
    const char alpha[3] = {'/', '.', 'a'};
    for (int len = 0; len <= maxlen; ++len) {
        uint64_t total = 1; for (int i = 0; i < len; ++i) total *= 3;
        for (uint64_t k = 0; k < total; ++k) {
            std::string s; uint64_t t = k;
            for (int i = 0; i < len; ++i) { s.push_back(alpha[t % 3]); t /= 3; }
            ++cases;
            if (!check_one(s)) { emit(s); return 3; }
        }
    }
    const char* al2 = "/..ab-_ ";
    for (uint64_t k = 0; k < nrand; ++k) {
        int len = rnd() % 200; if (rnd() % 16 == 0) len = 3900 + rnd() % 300;
        std::string s; for (int i = 0; i < len; ++i) s.push_back(al2[rnd() % 8]);
        ++cases;
        if (!check_one(s)) { emit(s); return 3; }
    }
    printf("OK %lu (all strings over {/ . a} of length <= %d through the real level_valid and PathCat, %lu random up to 4200 chars)\n", cases, maxlen, nrand);
    return 0;
}
