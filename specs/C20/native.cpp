// C20 native layer: the REAL Path::level_valid and SubFileSystem::PathCat (compiled from /repo's current
// fs/path.cpp and fs/subfs.cpp) against an independent lexical resolver.
#include "../../../repo/fs/path.cpp"
#include "../../../repo/fs/subfs.cpp"
#include <cstdio>
#include <cstdlib>
#include <cstring>
#include <string>
#include <vector>
#include <fstream>
#include <sstream>
using namespace photon::fs;

static bool ref_escapes(const std::string& s) {
    int depth = 0; size_t i = 0, n = s.size();
    while (i < n) {
        while (i < n && s[i] == '/') i++;
        if (i >= n) break;
        size_t b = i;
        while (i < n && s[i] != '/') i++;
        std::string c = s.substr(b, i - b);
        if (c == ".") continue;
        if (c == "..") { if (--depth < 0) return true; }
        else depth++;
    }
    return false;
}
// lexical resolution of an absolute path: returns false if it ever climbs above `base` components
static bool resolves_inside(const std::string& full, const std::string& base) {
    auto split = [](const std::string& p) { std::vector<std::string> v; size_t i = 0; while (i < p.size()) { while (i < p.size() && p[i] == '/') i++; size_t b = i; while (i < p.size() && p[i] != '/') i++; if (i > b) v.push_back(p.substr(b, i - b)); } return v; };
    auto bc = split(base), fc = split(full);
    std::vector<std::string> st;
    size_t consumed = 0;
    for (auto& c : fc) {
        ++consumed;
        if (c == ".") continue;
        if (c == "..") { if (st.empty()) return false; st.pop_back(); }
        else st.push_back(c);
        // once past the base prefix, the stack must keep the base as a prefix
        if (consumed >= bc.size()) {
            if (st.size() < bc.size()) return false;
            for (size_t k = 0; k < bc.size(); ++k) if (st[k] != bc[k]) return false;
        }
    }
    return true;
}
// underlay for init(): every path is an existing directory; nothing else is ever called
struct DirFS : public IFileSystem {
    IFile* open(const char*, int) override { return nullptr; }
    IFile* open(const char*, int, mode_t) override { return nullptr; }
    IFile* creat(const char*, mode_t) override { return nullptr; }
    int mkdir(const char*, mode_t) override { return -1; }
    int rmdir(const char*) override { return -1; }
    int symlink(const char*, const char*) override { return -1; }
    ssize_t readlink(const char*, char*, size_t) override { return -1; }
    int link(const char*, const char*) override { return -1; }
    int rename(const char*, const char*) override { return -1; }
    int unlink(const char*) override { return -1; }
    int chmod(const char*, mode_t) override { return -1; }
    int chown(const char*, uid_t, gid_t) override { return -1; }
    int lchown(const char*, uid_t, gid_t) override { return -1; }
    int statfs(const char*, struct statfs*) override { return -1; }
    int statvfs(const char*, struct statvfs*) override { return -1; }
    int stat(const char*, struct stat* st) override { memset(st, 0, sizeof(*st)); st->st_mode = S_IFDIR | 0755; return 0; }
    int lstat(const char* p, struct stat* st) override { return stat(p, st); }
    int access(const char*, int) override { return -1; }
    int truncate(const char*, off_t) override { return -1; }
    int utime(const char*, const struct utimbuf*) override { return -1; }
    int utimes(const char*, const struct timeval[2]) override { return -1; }
    int lutimes(const char*, const struct timeval[2]) override { return -1; }
    int mknod(const char*, mode_t, dev_t) override { return -1; }
    int syncfs() override { return -1; }
    photon::fs::DIR* opendir(const char*) override { return nullptr; }
};
static std::string why;
// every base goes through the REAL SubFileSystem::init() over the local filesystem (each base is an existing directory)
struct Base { const char* given; SubFileSystem* fs; std::string eff; };
static std::vector<Base> bases;
static bool setup_bases() {
    static const char* B[] = {"/base/dir/", "/", ".", "./", "/tmp", "/usr/", "/a/", "a"};
    auto lfs = new DirFS;
    for (auto b : B) {
        Base x; x.given = b; x.fs = (SubFileSystem*)calloc(1, sizeof(SubFileSystem));
        if (x.fs->init(lfs, b, false) != 0) { why = std::string("init() refused the directory ") + b; return false; }
        x.eff = b; if (x.eff.back() != '/') x.eff.push_back('/');
        // a configured (non-empty) base must be recorded as the base text, '/'-terminated: with no recorded base nothing is checked or prefixed
        if (std::string(x.fs->base_path, x.fs->base_path_len) != x.eff) { why = std::string("init('") + b + "') recorded the base as '" + std::string(x.fs->base_path, x.fs->base_path_len) + "': paths are not confined to that directory"; return false; }
        bases.push_back(x);
    }
    return true;
}
static bool check_base(const Base& B, const std::string& s) {
    bool esc = ref_escapes(s);
    const char* p = s.c_str();
    SubFileSystem::PathCat cat(B.fs, p);
    bool fits = s.size() + B.eff.size() < sizeof(cat.buf) - 2;
    if (p == nullptr) {
        if (!esc && fits) { why = "legal path rejected by PathCat (base " + B.eff + ")"; return false; }
        return true;
    }
    if (esc) { why = "escaping path forwarded by PathCat (base " + B.eff + ")"; return false; }
    if (p != cat.buf || std::string(p) != B.eff + s) { why = "forwarded path is not base + path (base " + B.eff + ", forwarded " + std::string(p) + ")"; return false; }
    if (B.eff[0] == '/' && !resolves_inside(p, B.eff)) { why = "forwarded path resolves outside the base directory (base " + B.eff + ")"; return false; }
    return true;
}
static bool check_one(const std::string& s) {
    bool esc = ref_escapes(s);
    if (path_level_valid(s.c_str()) != !esc) { why = esc ? "escaping path accepted by level_valid" : "legal path refused by level_valid"; return false; }
    if (bases.empty() && !setup_bases()) return false;
    for (auto& B : bases) {
        if (!check_base(B, s)) return false;
        // paths whose text happens to begin with the base text are ordinary paths below the base
        if (s.size() + 2 * B.eff.size() < 4000) {
            if (!check_base(B, B.eff + s)) return false;
            if (!check_base(B, B.eff.substr(0, B.eff.size() - 1) + s)) return false;
        }
    }
    return true;
}
static void emit(const std::string& s) {
    printf("CEX path {\"in_s\": [");
    for (size_t i = 0; i < s.size(); ++i) printf("%s%d", i ? ", " : "", (int)(unsigned char)s[i]);
    printf("], \"why\": \"%s\"}\n", why.c_str());
}
static uint64_t rs_;
static uint64_t rnd() { rs_ ^= rs_ << 13; rs_ ^= rs_ >> 7; rs_ ^= rs_ << 17; return rs_; }
int main(int argc, char** argv) {
    log_output = log_output_null;
    if (argc >= 3 && !strcmp(argv[1], "--replay")) {
        std::ifstream f(argv[2]); std::stringstream ss; ss << f.rdbuf(); std::string j = ss.str();
        auto p = j.find("\"in_s\"");
        std::string s;
        if (p != std::string::npos) {
            p = j.find('[', p); auto e = j.find(']', p);
            std::string body = j.substr(p + 1, e - p - 1);
            std::stringstream ls(body); std::string tok;
            while (std::getline(ls, tok, ',')) { int v = atoi(tok.c_str()); if (v == 0) break; s.push_back((char)v); }
        }
        bool ok = check_one(s);
        printf("%s path=\"%s\" %s\n", ok ? "NOT-REPRODUCED" : "REPRODUCED", s.c_str(), why.c_str());
        return 0;
    }
    int maxlen = argc > 1 ? atoi(argv[1]) : 9;
    uint64_t nrand = argc > 2 ? strtoull(argv[2], 0, 10) : 20000, cases = 0;
    const char* sd = getenv("VERIF_SEED");
    rs_ = 0x9E3779B97F4A7C15ull ^ (sd ? strtoull(sd, 0, 10) * 0x100000001B3ull : 1);
    const char alpha[3] = {'/', '.', 'a'};
    for (int len = 0; len <= maxlen; ++len) {
        uint64_t total = 1; for (int i = 0; i < len; ++i) total *= 3;
        for (uint64_t k = 0; k < total; ++k) {
            std::string s; uint64_t t = k;
            for (int i = 0; i < len; ++i) { s.push_back(alpha[t % 3]); t /= 3; }
            ++cases;
            if (!check_one(s)) { emit(s); return 3; }
        }
    }
    const char* al2 = "/..ab-_ ";
    for (uint64_t k = 0; k < nrand; ++k) {
        int len = rnd() % 200; if (rnd() % 16 == 0) len = 3900 + rnd() % 300;
        std::string s; for (int i = 0; i < len; ++i) s.push_back(al2[rnd() % 8]);
        ++cases;
        if (!check_one(s)) { emit(s); return 3; }
    }
    printf("OK %lu (all strings over {/ . a} of length <= %d through the real level_valid, and through the real init() + PathCat for 8 bases (absolute, relative, \".\", \"/\"), each also with the base text in front of the path; %lu random up to 4200 chars)\n", cases, maxlen, nrand);
    return 0;
}
