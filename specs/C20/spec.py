from engine.api import Target, Proof, Native
from engine.extract import fields_rule

ID = 'C20'
LEVEL = 'proof'
PC = 'fs/path.cpp'
PH = 'fs/path.h'
SF = 'fs/subfs.cpp'

SET_INV0 = '''
__CPROVER_assigns(p)
__CPROVER_loop_invariant(__CPROVER_same_object(p, S) && OFF(P0_) <= OFF(p) && OFF(p) <= SLEN)
__CPROVER_loop_invariant((OFF(P0_) <= G && G < OFF(p)) ==> S[G] == '/')
__CPROVER_decreases(SLEN - OFF(p))
'''
SET_INV1 = '''
__CPROVER_assigns(p)
__CPROVER_loop_invariant(__CPROVER_same_object(p, S) && __CPROVER_same_object(ptr, S) && OFF(P0_) <= OFF(ptr) && OFF(ptr) <= OFF(p) && OFF(p) <= SLEN)
__CPROVER_loop_invariant((OFF(P0_) <= G && G < OFF(ptr)) ==> S[G] == '/')
__CPROVER_loop_invariant(OFF(ptr) < OFF(p) ==> (S[OFF(ptr)] != '/' && S[OFF(ptr)] != 0))
__CPROVER_loop_invariant(OFF(ptr) == OFF(p) ==> (OFF(p) == SLEN || S[OFF(p)] != '/' || 1))
__CPROVER_loop_invariant((OFF(ptr) <= G && G < OFF(p)) ==> (S[G] != '/' && S[G] != 0))
__CPROVER_decreases(SLEN - OFF(p))
'''
LV_INV = '''
__CPROVER_assigns(it_.m_view, level, G_DEPTH, G_ESC, G_POS, G_B, G_E)
__CPROVER_loop_invariant(it_.end == S + SLEN && e_.m_view.len == 0 && e_.m_view.data == NULL)
__CPROVER_loop_invariant(G_POS <= G_B && G_B <= G_E && G_E <= SLEN && 0 <= level && (size_t)level <= G_POS)
__CPROVER_loop_invariant(level == G_DEPTH && !G_ESC)
__CPROVER_loop_invariant((G_POS <= G && G < G_B) ==> S[G] == '/')
__CPROVER_loop_invariant((G_B <= G && G < G_E) ==> (S[G] != '/' && S[G] != 0))
__CPROVER_loop_invariant(it_.m_view.len == G_E - G_B && (G_B < G_E ==> it_.m_view.data == S + G_B) && (G_B == G_E ==> S[G_E] == 0))
__CPROVER_decreases(SLEN - G_POS)
'''
LV_GHOST = ('{ struct sv name = it_.m_view; '
            '/* ghost no-op that re-anchors the havocked pointer for CBMC\'s points-to analysis */ '
            'if (name.data == S + G_B) name.data = S + G_B; '
            '/* ghost: classify this component by the SPEC and account it */ '
            '{ G_DEPTH += SPEC_DELTA(name.data, name.len); if (G_DEPTH < 0) G_ESC = true; G_POS = G_E; }')

TARGETS = [
    Target('init_view', PH, r'void init_view\(const char\* ptr, size_t len\)',
           rules=[fields_rule(['m_view']), (r'= \{ptr, len\}', '= (struct sv){ptr, len}', 1)]),
    Target('set', PC, r'void Path::iterator::set\(const char\* p\)', rules=[
        (r'return init_view\((.*?)\);', r'{ G_B = G_E = (p ? OFF(p) : 0); pit_init_view(this, \1); return; }', 1),
        (r'(?<![\w])init_view\((ptr, p - ptr)\);', r'{ G_B = OFF(ptr); G_E = OFF(p); pit_init_view(this, \1); }', 1),
        fields_rule(['end'], min_fires=2),
        (r'^\{', '{ const char *P0_ = p;', 1)],
        loops={'count': 2, 0: SET_INV0, 1: SET_INV1}),
    Target('it_ctor', PH, r'iterator\(string_view path\)', rules=[
        fields_rule(['end']), (r'path\.data\(\)', 'path.data', 2), (r'path\.size\(\)', 'path.len', 1),
        (r'(?<![\w])set\(', 'pit_set(this, ', 1)]),
    Target('it_ctor_end', PH, r'iterator\(\) // end\(\)', rules=[
        fields_rule(['end']), (r'(?<![\w])init_view\(', 'pit_init_view(this, ', 1)]),
    Target('it_inc', PH, r'iterator& operator\+\+\(\)', rules=[
        fields_rule(['m_view'], min_fires=2), (r'\.data\(\)', '.data', 1), (r'\.size\(\)', '.len', 1),
        (r'(?<![\w])set\(', 'pit_set(this, ', 1), (r'return \*this;', 'return;', 1)]),
    Target('it_ne', PH, r'bool operator!=\(const iterator& rhs\) const', rules=[
        (r'm_view != rhs\.m_view', '!sv_eq(this->m_view, rhs->m_view)', 1)]),
    Target('p_begin', PH, r'iterator begin\(\) const', rules=[
        (r'return iterator\(m_path\);', '{ struct pit r_; pit_ctor(&r_, this->m_path); return r_; }', 1)]),
    Target('p_end', PH, r'iterator end\(\) const', rules=[
        (r'return iterator\(\);', '{ struct pit r_; pit_ctor_end(&r_); return r_; }', 1)]),
    Target('level_valid', PC, r'bool Path::level_valid\(\)', rules=[
        (r'for \(auto& name: \*this\)\s*\{',
         'struct pit it_ = Path_begin(this); struct pit e_ = Path_end(this);\n for (; pit_ne(&it_, &e_); pit_inc(&it_)) ' + LV_GHOST, 1),
        (r'name\.size\(\)', 'name.len', 1), (r'\bname\[', 'name.data[', 2)],
        loops={'count': 1, 0: LV_INV}),
    Target('pathcat', SF, r'PathCat\(const SubFileSystem\* subfs, const char\*& path\)', rules=[
        (r'\bpath\b', '(*path)', 8), (r'\bstrlen\(', 'strlen_(', 1), (r'\bmemcpy\(', 'memcpy_(', 2), (r'sizeof\(buf\)', 'sizeof(this->buf)', 1),
        (r'LOG_ERROR_RETURN\(0, , [^;]*;', 'return;', 2),
        (r'(?<![\w.>])buf\b(?!\))', 'this->buf', 4)]),
    Target('init', SF, r'int init\(IFileSystem\* _underlayfs, const char\* _base_path, bool _ownership\)', rules=[
        fields_rule(['ownership', 'underlayfs', 'underlay_xattrfs', 'base_path', 'base_path_len'], min_fires=8),
        (r'dynamic_cast<IFileSystemXAttr \*>\(_underlayfs\)', 'xattr_cast_(_underlayfs)', 1), (r'struct stat st;', 'struct stat_ st;', 1),
        (r'this->underlayfs->stat\(', 'ufs_stat(this->underlayfs, ', 1), (r'LOG_ERROR_RETURN\(EINVAL, -1,[^;]*;', 'return -1;', 2),
        (r'\bstrlen\(', 'strlen_(', 1), (r'\bmemcpy\(', 'memcpy_(', 1)]),
]

UNITS = {'path.c': 'path.c.in', 'init.c': 'init.c.in'}

PROOFS = [
    Proof('set', 'path.c', 'h_set', enforce='pit_set', kind='U', defines=['SMAX=4096'], expect_loops=2, min_obligations=30),
    Proof('level_valid', 'path.c', 'h_level_valid', enforce='Path_level_valid', replace=['pit_set'], kind='U',
          defines=['SMAX=4096'], expect_loops=1, min_obligations=30),
    Proof('pathcat', 'path.c', 'h_pathcat', enforce='PathCat_ctor', replace=['path_level_valid', 'strlen_'], kind='U',
          defines=['SMAX=4096', 'WITH_PATHCAT'], min_obligations=20),
    Proof('init', 'init.c', 'h_init', kind='L', min_obligations=6),
    Proof('bounded/level_valid', 'path.c', 'h_bounded', kind='B', defines=['SMAX=4096', 'B_MODE', 'BN=7'], unwind=10,
          bound='all strings of length <= 7 over {/ . a}', cex_for=['level_valid', 'set'], timeout=600),
]
NATIVES = [Native('native', 'native.cpp', args_quick=[9, 20000], args_thorough=[13, 500000], timeout=1800, link_photon=True)]
REPLAY = 'native'
TRUSTED = ['cbmc 6.11.0', 'lowering rules of specs/C20/spec.py']
NOT_DECIDED = ['symlink resolution inside the underlying filesystem (the statement is lexical)']
ASSUMPTIONS = []


# ---------------------------------------------------------------- every forwarding operation of SubFileSystem
# The methods are enumerated from /repo/fs/subfs.cpp on every run; each one that takes a path is lowered and verified:
# no pointer to a caller-supplied path ever reaches the underlying filesystem - only NULL (rejected) or a PathCat buffer.
import os, re
_REPO = os.environ.get('VERIF_REPO', '/repo')
OPS_EXEMPT = {('symlink', 'oldname')}      # the link's content, not a path operated on by the sub-filesystem
OP_RULES = [
    (r'PathCat (\w+)\(this, (\w+)\);', r'struct PathCat \1; PathCat_ctor_c(&\1, this, &\2);', 0),
    (r'LOG_ERROR_RETURN\(\w+, -1,[^;]*;', 'return -1;', 0),
    (r'!underlay_xattrfs\b', '!this->underlay_xattrfs', 0),
    (r'(?:underlayfs|underlay_xattrfs)->(\w+)\(([^;]*)\);', r'UL_CALL(\2);', 1),
]
def _enum_ops():
    try:
        txt = open(os.path.join(_REPO, SF)).read()
    except OSError:
        return []
    a = txt.find('class SubFileSystem'); b = txt.find('class SubFile ', a)
    ops = []
    for m in re.finditer(r'virtual\s+([\w\s\*]+?)\s*\b(\w+)\(([^()]*)\)\s*override\s*(?=\{)', txt[a:b]):
        params = [x.strip() for x in m.group(3).split(',') if x.strip()]
        if not any(re.match(r'const\s+char\s*\*', q) for q in params):
            continue
        ops.append((m.group(2), params, m.group(0)))
    return ops
OPS = _enum_ops()
for _k, (_name, _params, _sig) in enumerate(OPS):
    TARGETS.append(Target('op%d' % _k, SF, re.escape(_sig.strip()), rules=OP_RULES, note=_name))

def ops_unit(lowered):
    out = [open(os.path.join(os.path.dirname(__file__), 'ops_prelude.h')).read()]
    names = []
    for k, (name, params, sig) in enumerate(OPS):
        cparams, args, raw = [], [], 0
        for q in params:
            mm = re.match(r'(.*?)(\w+)\s*(\[\d*\])?$', q)
            ty, pn = mm.group(1).strip(), mm.group(2)
            cparams.append(q)
            if re.match(r'const\s+char\s*\*$', ty):
                if (name, pn) in OPS_EXEMPT or pn in ('name',):
                    args.append('EXEMPTP')
                else:
                    raw += 1; args.append('RAW%d' % raw)
            elif '*' in ty or mm.group(3):
                args.append('(void*)OTHERBUF')
            else:
                args.append('(%s)nondet_long()' % ty)
        out.append('long op%d(struct SubFileSystem *this, %s)\n/*@BODY op%d@*/' % (k, ', '.join(cparams), k))
        out.append('void h_op%d(void) { ops_setup(); struct SubFileSystem fs; fs.underlay_xattrfs = nondet_long() ? (void*)OTHERBUF : 0; N_RAW = %d; (void)op%d(&fs, %s);\n'
                   '  __CPROVER_assert(UL_N <= 1, "%s: forwards at most once"); __CPROVER_assert(UL_N == 0 || N_CAT == N_RAW, "%s: every path argument went through PathCat before the call"); __CPROVER_assert(0, "CANARY h_op%d reachable"); }'
                   % (k, raw, k, ', '.join(args), name, name, k))
        names.append(name)
    text = '\n'.join(out)
    def sub(m):
        return m.group(0)
    return text
ops_unit.__name__ = 'ops_unit(generated)'
UNITS['ops.c'] = ops_unit
for _k, (_name, _params, _sig) in enumerate(OPS):
    PROOFS.append(Proof('ops/%s#%d' % (_name, _k), 'ops.c', 'h_op%d' % _k, kind='L', min_obligations=2, timeout=120))
