from engine.api import Target, Proof, Native
from engine.extract import fields_rule
ID = 'C12'
LEVEL = 'proof'
S = 'rpc/serialize.h'
TARGETS = [
    Target('b_addr', S, r'void\* addr\(\) const (?=\{ return _ptr; \})', rules=[fields_rule(['_ptr'])]),
    Target('b_size', S, r'size_t size\(\) const (?=\{ return _len; \})', rules=[fields_rule(['_len'])]),
    Target('a_size', S, r'size_t size\(\) const (?=\{)', index=1, count=2, rules=[fields_rule(['_len'], min_fires=0)]),
    Target('a_begin', S, r'T\* begin\(\) const (?=\{)', rules=[fields_rule(['_ptr', '_len'], min_fires=0)]),
    Target('a_end', S, r'T\* end\(\) const (?=\{)', rules=[fields_rule(['_ptr', '_len'], min_fires=0),
        (r'(?<![\w>.])begin\(\)', 'arrayP_begin(this)', 0), (r'(?<![\w>.])size\(\)', 'arrayP_size(this)', 0)]),
    Target('s_c_str', S, r'const char\* c_str\(\) const (?=\{)', rules=[(r'(?<![\w>.])cbegin\(\)', 'arrayC_begin(this)', 1)]),
    Target('s_sv', S, r'std::string_view sv\(\) const (?=\{)', rules=[
        (r'std::string_view\(\)', '(struct sv){0, 0}', 0), (r'std::string_view\(c_str\(\)\)', 'sv_from_cstr_(string_c_str(this))', 0),
        (r'return \{([^;{}]+)\};', r'return (struct sv){\1};', 1),
        (r'(?<![\w>.])c_str\(\)', 'string_c_str(this)', 1), (r'(?<![\w>.])size\(\)', 'arrayC_size(this)', 1)]),
    Target('anchor', S, r'string anchor\(const buffer& base_buffer\) const', rules=[
        (r'return \{\};', 'return (struct buffer){0, 0};', 0),
        (r'return \{([^;{}]+)\};', r'return (struct buffer){\1};', 1),
        (r'base_buffer\.addr\(\)', 'buffer_addr(base_buffer)', 1), (r'base_buffer\.size\(\)', 'buffer_size(base_buffer)', 0),
        fields_rule(['offset', 'length'], min_fires=2)]),
    Target('des_buffer', S, r'void process_field\(buffer& x\)', index=2, count=3, rules=[
        (r'x\.size\(\)', 'buffer_size(x)', 2), (r'x\._ptr', 'x->_ptr', 2), (r'x\._len', 'x->_len', 0),
        (r'_iov->extract_front_continuous\(', 'IOV_extract_front_continuous(this->_iov, ', 1),
        fields_rule(['failed'])]),
    Target('des_iovec_array', S, r'void process_field\(iovec_array& x\)', index=2, count=3, rules=[
        (r'iovector_view v;', 'struct iovector_view_ v = { 0, 0 };', 1), (r'_iov->extract_front\(x\.summed_size, &v\)', 'IOV_extract_front_view(this->_iov, x->summed_size, &v)', 1),
        (r'x\.assign\(v\.iov, v\.iovcnt\)', 'IA_assign(x, v.iov, v.iovcnt)', 1), (r'\bx\.summed_size', 'x->summed_size', 0), fields_rule(['failed'])]),
    Target('des_array', S, r'void process_field\(array<T>& x\)', rules=[
        (r'd\(\)->process_field\(\(buffer&\)x\);', 'DES_process_field_buffer(this, x); void *P0_ = x->_ptr; size_t L0_ = x->_len;', 1),
        (r'for \(auto& i: x\)\s*d\(\)->process_field\(i\);',
         '{ struct buffer *it_ = arrayS_begin(x); struct buffer *e_ = it_ + arrayS_size(x); for (; it_ != e_; it_++) { struct buffer *i = it_; DES_process_elem(this, i); } }', 1)],
        marks={'count': 1, 0: dict(name='ARR', frame=['it_', 'N_ELEM'], effects={'DES_process_elem': ['N_ELEM']}, pure=[])}),
    Target('ser_buffer', S, r'void process_field\(buffer& x\)', index=1, count=3, rules=[
        (r'iov\.back_free_iovcnt\(\)', 'IOV_back_free_iovcnt(this)', 1), (r'iov\.push_back\(', 'IOV_push_back(this, ', 1),
        (r'x\.size\(\)', 'buffer_size(x)', 2), (r'x\.addr\(\)', 'buffer_addr(x)', 1), fields_rule(['iovfull'])]),
    Target('add_checksum', S, r'void add_checksum\(iovector\* iov\) (?=\{\s*assert)', rules=[
        (r'Hasher::extend_hash\(m_checksum, iov\);', 'Hasher_extend_iov(&this->m_checksum, iov);', 1)]),
    Target('validate_checksum', S, r'bool validate_checksum\(iovector\* iov, void\* body, size_t body_length\) (?=\{\s*auto dst)', rules=[
        (r'Hasher::extend_hash\(m_checksum, iov\);', 'Hasher_extend_iov(&this->m_checksum, iov);', 1),
        (r'Hasher::extend_hash\(m_checksum, body, body_length\);', 'Hasher_extend_buf(&this->m_checksum, body, body_length);', 1),
        (r'Hasher::init_value\(\)', 'HASHER_INIT', 1), fields_rule(['m_checksum'], min_fires=3)]),
    Target('ser_iovec_array', S, r'void process_field\(iovec_array& x\)', index=1, count=3, rules=[
        (r'for \(auto& v: x\)', 'for (struct iovec *v_ = arrayI_begin(x); v_ != arrayI_end(x); ++v_)', 1),      # range-for over array<iovec>: begin() / end() / ++
        (r'\bx\.summed_size', 'x->summed_size', 0), (r'\bv\.(iov_len|iov_base)', r'v_->\1', 1),
        (r'buffer buf\(v_->iov_base, v_->iov_len\);', 'struct buffer buf = { v_->iov_base, v_->iov_len };', 1),
        (r'd\(\)->process_field\(buf\);', 'SER_process_field_buffer_c(this, &buf);', 1)],
        marks={'count': 1, 0: dict(name='IA', frame=['v_', 'x', 'buf', 'SENT', 'CALLS', 'G_OK'], effects={'SER_process_field_buffer_c': ['SENT', 'CALLS', 'G_OK']}, pure=['arrayI_begin', 'arrayI_end'])}),
]
UNITS = {'iova.c': 'iova.c.in', 'ser.c': 'ser.c.in'}
CHECKS = ['--no-standard-checks', '--bounds-check', '--pointer-check', '--div-by-zero-check', '--signed-overflow-check', '--undefined-shift-check']
PROOFS = [
    Proof('serializer/iovec_array', 'iova.c', 'h_ser_iovec_array', kind='L', min_obligations=4, backend='cadical', aux_violation=True),
    Proof('slice_anchor/in_bounds', 'ser.c', 'h_anchor', kind='L', min_obligations=2),
    Proof('accessors', 'ser.c', 'h_accessors', kind='L', min_obligations=4, checks=CHECKS),
    Proof('deserializer/buffer', 'ser.c', 'h_des_buffer', kind='L', min_obligations=3),
    Proof('deserializer/iovec_array', 'ser.c', 'h_des_iovec_array', kind='L', min_obligations=3),
    Proof('deserializer/array', 'ser.c', 'h_des_array', kind='L', min_obligations=3, checks=CHECKS, backend='cadical'),
    Proof('serializer/buffer', 'ser.c', 'h_ser_buffer', kind='L', min_obligations=3),
    Proof('checked_message', 'ser.c', 'h_checksum', kind='L', min_obligations=1),
]
NATIVES = [Native('native', 'native.cpp', args_quick=[50000], args_thorough=[1000000], timeout=3000, link_photon=True)]
REPLAY = 'native'
TRUSTED = ['cbmc 6.11.0', 'lowering rules of specs/C12/spec.py']
NOT_DECIDED = ['the compile-time traversal over message shapes (reduce/process_fields/FilterAlignedFields, nested messages, sorted_map iteration)',
               'whole-message round trip (an induction over fields on top of the per-field contracts, not machine-checked)',
               'CRC collisions']
ASSUMPTIONS = []
