// C12 native layer: the REAL rpc::DeserializerIOV / SerializerIOV / slice / string on hostile and on honest bytes.
#include "../../../repo/common/iovector.cpp"     // the gathering of fields that straddle fragments, compiled from the working tree
#include <photon/rpc/serialize.h>
#include <cstdio>
#include <cstdlib>
#include <cstring>
#include <string>
#include <vector>
#include <fstream>
#include <sstream>
#include <unistd.h>
#include <sys/wait.h>
using namespace photon::rpc;
static std::string why;
#define FAIL(m) do { why = m; return false; } while (0)
static uint64_t rs_;
static uint64_t rnd() { rs_ ^= rs_ << 13; rs_ ^= rs_ >> 7; rs_ ^= rs_ << 17; return rs_; }

struct Msg : public Message {
    int32_t a; string name; buffer blob; int64_t b;
    PROCESS_FIELDS(name, blob);
};
static bool inside(const void* p, size_t n, const std::vector<char>& bytes) {
    return n == 0 || ((const char*)p >= bytes.data() && (const char*)p + n <= bytes.data() + bytes.size());
}
// (1) slice::anchor with arbitrary offset/length
static bool case_anchor(int64_t off, uint64_t len, uint64_t n) {
    std::vector<char> bytes(n + 1, 'x'); buffer base(bytes.data(), n);
    slice s((off_t)off, (size_t)len); string r = s.anchor(base);
    std::vector<char> view(bytes.begin(), bytes.begin() + n);
    if (r.size() != 0 && !((const char*)r.addr() >= bytes.data() && (const char*)r.addr() + r.size() <= bytes.data() + n))
        FAIL("slice::anchor returned a string outside the base buffer");
    return true;
}
// (2) a message whose variable-length field descriptors are hostile, deserialized by the real DeserializerIOV
static bool case_hostile(uint64_t name_len, uint64_t blob_len, uint64_t payload, uint64_t cut = 0) {
    Msg m; m.a = 1; m.b = 2;
    m.name._ptr = (void*)0x10; m.name._len = name_len; m.blob._ptr = (void*)0x20; m.blob._len = blob_len;     // as found on the wire
    std::vector<char> bytes(payload + sizeof(Msg)); for (size_t i = 0; i < payload; ++i) bytes[i] = 'a' + i % 26;
    memcpy(bytes.data() + payload, &m, sizeof(Msg));
    IOVector iov;
    if (cut && payload > 1) { size_t c = 1 + cut % (payload - 1); iov.push_back(bytes.data(), c); iov.push_back(bytes.data() + c, bytes.size() - c); }   // fragmented input
    else iov.push_back(bytes.data(), bytes.size());
    DeserializerIOV des; Msg* t = des.deserialize<Msg>(&iov);
    if (!t) { if (name_len + blob_len <= payload && name_len <= payload) FAIL("well-formed message rejected"); return true; }
    // a field is either inside the supplied bytes or (when it straddles elements) a copy of the next flat bytes
    if (name_len + blob_len > payload) FAIL("message accepted although its fields are longer than the bytes supplied");
    if (!inside(t->name.addr(), t->name.size(), bytes) && memcmp(t->name.addr(), bytes.data(), t->name.size())) FAIL("string field is neither inside nor a copy of the supplied bytes");
    if (!inside(t->blob.addr(), t->blob.size(), bytes) && memcmp(t->blob.addr(), bytes.data() + t->name.size(), t->blob.size())) FAIL("buffer field is neither inside nor a copy of the supplied bytes");
    auto v = t->name.sv();
    if (!(v.size() == 0 || (v.data() == (const char*)t->name.addr() && v.size() <= t->name.size()))) FAIL("string::sv() of a deserialized field reaches outside the field");
    return true;
}
// (3) honest round trip of one message, fragmented
static bool case_roundtrip(uint64_t nl, uint64_t bl, uint64_t cut) {
    std::vector<char> nm(nl + 1, 'n'), bb(bl + 1, 'b'); nm[nl] = 0;
    Msg m; m.a = 7; m.b = 9; m.name.assign((const void*)nm.data(), nl ? nl + 1 : 0); m.blob.assign(bb.data(), bl);
    SerializerIOV ser; ser.serialize(m);
    if (ser.iovfull) FAIL("serializer reported a full vector");
    std::vector<char> flat(ser.iov.sum()); ser.iov.memcpy_to(flat.data(), flat.size());
    IOVector in; size_t c = flat.empty() ? 0 : cut % (flat.size() + 1);
    if (c) in.push_back(flat.data(), c); if (flat.size() - c) in.push_back(flat.data() + c, flat.size() - c);
    DeserializerIOV des; Msg* t = des.deserialize<Msg>(&in);
    if (!t) FAIL("round trip: deserialize failed");
    if (t->a != 7 || t->b != 9 || t->name.size() != m.name.size() || t->blob.size() != bl) FAIL("round trip: fixed fields / lengths differ");
    if (memcmp(t->name.addr(), nm.data(), t->name.size()) || memcmp(t->blob.addr(), bb.data(), bl)) FAIL("round trip: bytes differ");
    return true;
}
// (3b) an iovec_array field refers to the caller's iovec[]: the lengths sent are those at serialization time, whatever was cached when
// the array was built; the string field behind it must still be found
struct IMsg : public Message { int32_t a; iovec_array data; string tag; PROCESS_FIELDS(data, tag); };
static bool case_iovec_array(uint64_t l0, uint64_t l1, uint64_t l1_after, uint64_t cut) {
    std::vector<char> b0(l0 + 1, 'A'), b1(std::max(l1, l1_after) + 1, 'B'); char tg[] = "tag-1";
    struct iovec v[2] = {{b0.data(), (size_t)l0}, {b1.data(), (size_t)l1}};
    IMsg m; m.a = 3; m.data.assign(v, 2); m.tag.assign((const void*)tg, sizeof tg);
    v[1].iov_len = l1_after;                        // e.g. a read that returned fewer (or a buffer filled later with more) bytes
    SerializerIOV ser; ser.serialize(m);
    if (ser.iovfull) FAIL("serializer reported a full vector");
    std::vector<char> flat(ser.iov.sum()); ser.iov.memcpy_to(flat.data(), flat.size());
    IOVector in; size_t c = flat.empty() ? 0 : cut % (flat.size() + 1);
    if (c) in.push_back(flat.data(), c); if (flat.size() - c) in.push_back(flat.data() + c, flat.size() - c);
    DeserializerIOV des; IMsg* t = des.deserialize<IMsg>(&in);
    if (!t) FAIL("iovec_array round trip: deserialize rejected bytes that serialize produced");
    if (t->a != 3 || t->data.summed_size != l0 + l1_after) FAIL("iovec_array round trip: the field arrives with a different length than was sent");
    if (t->tag.size() != sizeof tg || memcmp(t->tag.addr(), tg, sizeof tg)) FAIL("iovec_array round trip: the field behind the iovec_array is not the one that was sent");
    return true;
}
// (4) a CHECKED message whose field bytes were altered in transit must be rejected
struct CMsg : public CheckedMessage<> {
    int32_t a; string name; int64_t b;
    PROCESS_FIELDS(name);
};
static bool case_checksum(uint64_t nl, uint64_t flip_at, int where) {
    std::vector<char> nm(nl + 2, 'n'); nm[nl + 1] = 0;
    CMsg m; m.a = 5; m.b = 6; m.name.assign((const void*)nm.data(), nl + 2);
    SerializerIOV ser; ser.serialize(m);
    std::vector<char> flat(ser.iov.sum()); ser.iov.memcpy_to(flat.data(), flat.size());
    size_t field_bytes = nl + 2;
    size_t pos = where == 0 ? flip_at % field_bytes                       // inside the variable-length field
                            : field_bytes + sizeof(uint32_t) + 4 + flip_at % 4;      // inside the fixed part of the body (member a)
    flat[pos] ^= 0x20;
    IOVector in; in.push_back(flat.data(), flat.size());
    DeserializerIOV des; CMsg* t = des.deserialize<CMsg>(&in);
    if (t) FAIL(where == 0 ? "checked message accepted although a byte of a variable-length field was altered" : "checked message accepted although a byte of the body was altered");
    return true;
}
// (5) an array of strings whose declared length exceeds the input must fail cleanly (run in a child: a crash is a finding)
struct AMsg : public Message { int32_t a; array<string> names; PROCESS_FIELDS(names); };
static bool case_hostile_array(uint64_t arr_len, uint64_t payload) {
    pid_t pid = fork();
    if (pid == 0) {
        AMsg h; h.a = 1; h.names._ptr = nullptr; h.names._len = arr_len;
        std::vector<char> bytes(payload + sizeof(AMsg), 0);
        memcpy(bytes.data() + payload, &h, sizeof(AMsg));
        IOVector iov; iov.push_back(bytes.data(), bytes.size());
        DeserializerIOV d; AMsg* t = d.deserialize<AMsg>(&iov);
        if (t) { for (auto& s : t->names) if (!inside(s.addr(), s.size(), bytes)) _exit(7); }
        _exit(0);
    }
    int st = 0; waitpid(pid, &st, 0);
    if (WIFSIGNALED(st)) FAIL("deserializing an array of strings with a hostile length crashed instead of failing cleanly");
    if (WIFEXITED(st) && WEXITSTATUS(st) == 7) FAIL("array element outside the supplied bytes");
    return true;
}
static bool is_known(const char* cls) { const char* k = getenv("VERIF_KNOWN"); return k && strstr(k, cls); }
static long long jnum(const std::string& j, const char* key) { auto p = j.find(std::string("\"") + key + "\""); if (p == std::string::npos) return 0; p = j.find(':', p); return strtoll(j.c_str() + p + 1, 0, 10); }
int main(int argc, char** argv) {
    if (argc >= 3 && !strcmp(argv[1], "--replay")) {
        std::ifstream f(argv[2]); std::stringstream ss; ss << f.rdbuf(); std::string j = ss.str(); bool ok = true;
        if (j.find("\"kind\": \"anchor\"") != std::string::npos) ok = case_anchor(jnum(j, "off"), jnum(j, "len"), jnum(j, "n"));
        else if (j.find("\"kind\": \"hostile_array\"") != std::string::npos) ok = case_hostile_array(jnum(j, "arr_len"), jnum(j, "payload"));
        else if (j.find("\"kind\": \"iovec_array\"") != std::string::npos) ok = case_iovec_array(jnum(j, "l0"), jnum(j, "l1"), jnum(j, "l1_after"), jnum(j, "cut"));
        else if (j.find("\"kind\": \"checksum\"") != std::string::npos) ok = case_checksum(jnum(j, "name_len"), jnum(j, "flip_at"), (int)jnum(j, "where"));
        else if (j.find("\"kind\": \"hostile\"") != std::string::npos) ok = case_hostile(jnum(j, "name_len"), jnum(j, "blob_len"), jnum(j, "payload"), jnum(j, "cut"));
        else ok = case_anchor(1 << 20, 16, 8) && case_hostile(0, 0, 4);     // canonical inputs for the contract obligations
        printf("%s %s\n", ok ? "NOT-REPRODUCED" : "REPRODUCED", why.c_str()); return 0;
    }
    uint64_t N = argc > 1 ? strtoull(argv[1], 0, 10) : 50000, cases = 0;
    const char* sd = getenv("VERIF_SEED"); rs_ = 0x9E3779B97F4A7C15ull ^ (sd ? strtoull(sd, 0, 10) * 0x100000001B3ull : 1);
    for (uint64_t k = 0; k < N; ++k) {
        uint64_t n = rnd() % 64; int64_t off = (rnd() % 4 == 0) ? (int64_t)rnd() : (int64_t)(rnd() % 80) - 8; uint64_t len = (rnd() % 4 == 0) ? rnd() : rnd() % 80;
        ++cases; if (!case_anchor(off, len, n)) { printf("CEX anchor {\"kind\": \"anchor\", \"off\": %ld, \"len\": %lu, \"n\": %lu, \"why\": \"%s\"}\n", off, len, n, why.c_str()); return 3; }
        uint64_t payload = rnd() % 48, nl = rnd() % 3 == 0 ? 0 : rnd() % 64, bl = rnd() % 3 == 0 ? 0 : rnd() % 64; if (rnd() % 8 == 0) nl = rnd();
        uint64_t cut = rnd() % 2 ? rnd() : 0; ++cases; if (!case_hostile(nl, bl, payload, cut)) { printf("CEX hostile {\"kind\": \"hostile\", \"name_len\": %lu, \"blob_len\": %lu, \"payload\": %lu, \"cut\": %lu, \"why\": \"%s\"}\n", nl, bl, payload, cut, why.c_str()); return 3; }
        { uint64_t nl = rnd() % 24, fa = rnd(); int where = rnd() % 2; static bool told = false; ++cases;
          if (!case_checksum(nl, fa, where)) {
              const char* cls = where == 0 ? "checksum_fields" : "checksum_body";
              if (is_known(cls)) { if (!told) { printf("KNOWN %s {\"kind\": \"checksum\", \"name_len\": %lu, \"flip_at\": %lu, \"where\": %d, \"why\": \"%s\"}\n", cls, nl, fa, where, why.c_str()); told = true; } }
              else { printf("CEX %s {\"kind\": \"checksum\", \"name_len\": %lu, \"flip_at\": %lu, \"where\": %d, \"why\": \"%s\"}\n", cls, nl, fa, where, why.c_str()); return 3; } } }
        if (k % 64 == 0) { uint64_t al = (rnd() % 8 + 1) * 16, pl = rnd() % 48; ++cases;
          if (!case_hostile_array(al, pl)) { printf("CEX hostile_array {\"kind\": \"hostile_array\", \"arr_len\": %lu, \"payload\": %lu, \"why\": \"%s\"}\n", al, pl, why.c_str()); return 3; } }
        { uint64_t a_ = rnd() % 30, b_ = rnd() % 30, c_ = rnd() % 3 == 0 ? b_ : rnd() % 30, k_ = rnd();
          ++cases; if (!case_iovec_array(a_, b_, c_, k_)) { printf("CEX iovec_array {\"kind\": \"iovec_array\", \"l0\": %lu, \"l1\": %lu, \"l1_after\": %lu, \"cut\": %lu, \"why\": \"%s\"}\n", (unsigned long)a_, (unsigned long)b_, (unsigned long)c_, (unsigned long)k_, why.c_str()); return 3; } }
        ++cases; if (!case_roundtrip(rnd() % 40, rnd() % 40, rnd())) { printf("CEX roundtrip {\"kind\": \"roundtrip\", \"why\": \"%s\"}\n", why.c_str()); return 3; }
    }
    printf("OK %lu (hostile slices, hostile field descriptors through the real DeserializerIOV, honest fragmented round trips)\n", cases);
    return 0;
}
