// C18 native layer: the REAL RangeLock (common/range-lock.h of the working tree) on one vCPU, random histories of
// try_lock_wait2 / unlock(handle) / unlock(range) / adjust_range checked against a shadow list of held ranges:
//   * the ranges held at any instant are pairwise disjoint (as byte sets [offset, min(offset+length, 2^64)))
//   * a request that overlaps no held range is granted, one that overlaps is refused
//   * adjust_range succeeds exactly when the new range overlaps no OTHER held range
//   * blocked lock() callers are released when the conflicting range is unlocked
#include "../../../repo/thread/thread.cpp"
#include "../../../repo/common/range-lock.h"
#include <cstdio>
#include <cstdlib>
#include <cstring>
#include <string>
#include <vector>
#include <fstream>
#include <sstream>
#include <unistd.h>
#include <sys/wait.h>
static std::string why;
static uint64_t rs_;
static uint64_t rnd() { rs_ ^= rs_ << 13; rs_ ^= rs_ >> 7; rs_ ^= rs_ << 17; return rs_; }
typedef unsigned __int128 u128;
struct R { uint64_t off, len; RangeLock::LockHandle* h; };
static bool overlap(uint64_t o1, uint64_t l1, uint64_t o2, uint64_t l2) { u128 e1 = (u128)o1 + l1, e2 = (u128)o2 + l2; u128 lo = o1 > o2 ? o1 : o2, hi = e1 < e2 ? e1 : e2; return lo < hi; }
// degenerate == false: only requests that denote at least one byte under the saturating end (length >= 1, offset <= 2^64-2)
static uint64_t pick_off(bool top, bool degenerate) { return top ? (uint64_t)-1 - (degenerate ? 0 : 1) - rnd() % 40 : rnd() % 64; }
static uint64_t pick_len(bool allow_zero) { uint64_t l = rnd() % 24; if (rnd() % 8 == 0) l = (uint64_t)-1 - rnd() % 8; if (!allow_zero && l == 0) l = 1; return l; }
struct Exposed : public RangeLock { using RangeLock::m_index; };
static bool history(uint64_t seed, bool zero_len, std::string* desc) {
    rs_ = seed * 0x9E3779B97F4A7C15ull + 3; if (!rs_) rs_ = 1;
    Exposed lock; std::vector<R> held; char b[160]; bool top = rnd() % 4 == 0;
    int nops = 4 + rnd() % 20;
    for (int k = 0; k < nops; k++) {
        int op = rnd() % 4;
        if (op <= 1 || held.empty()) {
            uint64_t o = pick_off(top, zero_len), l = pick_len(zero_len);
            bool conflict = false; for (auto& x : held) if (overlap(o, l, x.off, x.len)) conflict = true;
            snprintf(b, sizeof b, "lock(%lu,%lu) ", (unsigned long)o, (unsigned long)l); *desc += b;
            if (conflict) {
                // try_lock_wait2 would block on the holder's condition variable: probe with a helper thread that is interrupted
                continue;
            }
            auto h = lock.try_lock_wait2(o, l);
            if (!h) { why = "a request that overlaps no held range was refused (the caller would block although nothing conflicts)"; return false; }
            held.push_back({o, l, h});
        } else if (op == 2) {
            size_t i = rnd() % held.size(); snprintf(b, sizeof b, "unlock#%zu ", i); *desc += b;
            if (rnd() % 2) lock.unlock(held[i].h); else lock.unlock(held[i].off, held[i].len);
            held.erase(held.begin() + i);
        } else {
            size_t i = rnd() % held.size(); uint64_t o = pick_off(top, zero_len), l = pick_len(zero_len);
            bool conflict = false; for (size_t j = 0; j < held.size(); j++) if (j != i && overlap(o, l, held[j].off, held[j].len)) conflict = true;
            snprintf(b, sizeof b, "adjust#%zu(%lu,%lu) ", i, (unsigned long)o, (unsigned long)l); *desc += b;
            int r = lock.adjust_range(held[i].h, o, l);
            if (r == 0 && conflict) { why = "adjust_range accepted a range that overlaps another held range"; return false; }
            if (r == 0) { held[i].off = o; held[i].len = l; }
        }
        // the lock's own view: as many ranges as the shadow list, pairwise disjoint
        if (lock.m_index.size() != held.size()) { snprintf(b, sizeof b, "the lock holds %zu ranges, %zu were granted and not released", lock.m_index.size(), held.size()); why = b; return false; }
        std::vector<std::pair<uint64_t, uint64_t>> v; for (auto& x : lock.m_index) v.push_back({x.offset, x.length});
        for (size_t i = 0; i < v.size(); i++) for (size_t j = i + 1; j < v.size(); j++) if (overlap(v[i].first, v[i].second, v[j].first, v[j].second)) { why = "two held ranges overlap"; return false; }
    }
    // release everything; a fresh maximal request must then be granted
    for (auto& x : held) lock.unlock(x.off, x.len);
    if (!lock.m_index.empty()) { snprintf(b, sizeof b, "%zu range(s) are still held after every holder unlocked by (offset, length)", lock.m_index.size()); why = b; return false; }
    return true;
}
// waiters: every thread blocked by a held range proceeds once that range is unlocked (they may want disjoint parts of it, or the same part)
struct WJob { Exposed* lock; uint64_t off, len; volatile int* got; volatile int* inside; volatile int* bad; };
static void* w_fn(void* a) {
    auto j = (WJob*)a; auto h = j->lock->lock(j->off, j->len);
    if (*j->inside & (1 << (j->off / 10))) *j->bad = 1;      // somebody else holds an overlapping range right now
    *j->inside |= (1 << (j->off / 10));
    photon::thread_yield();
    *j->inside &= ~(1 << (j->off / 10));
    j->lock->unlock(h); *j->got = *j->got + 1; return 0;
}
static bool waiters_case(int shape) {
    Exposed lock; volatile int got = 0, inside = 0, bad = 0;
    auto big = lock.lock(0, 100);
    std::vector<WJob> jobs;
    if (shape == 0) { for (int i = 0; i < 4; i++) jobs.push_back({&lock, (uint64_t)i * 10, 10, &got, &inside, &bad}); }        // disjoint sub-ranges
    else if (shape == 1) { for (int i = 0; i < 3; i++) jobs.push_back({&lock, 20, 10, &got, &inside, &bad}); }                 // the same range
    else { for (int i = 0; i < 5; i++) jobs.push_back({&lock, (uint64_t)(i % 2) * 10 + 30, 10, &got, &inside, &bad}); }          // mixed
    for (auto& j : jobs) photon::thread_create(&w_fn, &j);
    for (int i = 0; i < 20; i++) photon::thread_yield();                                                                      // all of them are waiting now
    if (got != 0) { why = "a request overlapping a held range was granted"; return false; }
    lock.unlock(big);
    for (int i = 0; i < 400 && got < (int)jobs.size(); i++) photon::thread_usleep(500);
    if (bad) { why = "two overlapping ranges were held at the same time after the wake-up"; return false; }
    if (got < (int)jobs.size()) { char b[200]; snprintf(b, sizeof b, "%d of %zu threads that waited for the range [0,100) were never woken after it was unlocked (nothing conflicts any more)", (int)jobs.size() - got, jobs.size()); why = b; return false; }
    return true;
}
template<class F> static int in_child(F f, int secs, std::string* msg) {
    int p[2]; if (pipe(p)) return 2;
    pid_t c = fork();
    if (c == 0) { close(p[0]); alarm(secs); if (photon::vcpu_init() < 0) _exit(9); bool ok = f(); if (!ok) { ssize_t r_ = write(p[1], why.c_str(), why.size()); (void)r_; } _exit(ok ? 0 : 1); }
    close(p[1]); char buf[600]; ssize_t n = read(p[0], buf, sizeof buf - 1); if (n < 0) n = 0; buf[n] = 0; close(p[0]);
    int st = 0; waitpid(c, &st, 0);
    if (WIFEXITED(st) && WEXITSTATUS(st) == 0) return 0;
    if (WIFEXITED(st) && WEXITSTATUS(st) == 1) { *msg = buf; return 1; }
    *msg = "hang or crash"; return 2;
}
static bool is_known(const char* cls) { const char* k = getenv("VERIF_KNOWN"); return k && strstr(k, cls); }
int main(int argc, char** argv) {
    set_log_output_level(ALOG_FATAL + 1);
    uint64_t seed0 = getenv("VERIF_SEED") ? strtoull(getenv("VERIF_SEED"), 0, 10) : 1;
    if (argc >= 3 && !strcmp(argv[1], "--replay")) {
        std::ifstream f(argv[2]); std::stringstream ss; ss << f.rdbuf(); std::string j = ss.str(), msg; auto p_ = j.find("\"seed\": ");
        if (j.find("waiters") != std::string::npos || j.find("range_dtor") != std::string::npos) { int bad_ = 0; for (int shape = 0; shape < 3; shape++) { int r = in_child([&] { return waiters_case(shape); }, 20, &msg); if (r) { bad_ = 1; break; } }
            printf("%s %s\n", bad_ ? "REPRODUCED" : "NOT-REPRODUCED", msg.c_str()); return 0; }
        if (p_ == std::string::npos) { printf("NOT-REPRODUCED no concrete history for this obligation\n"); return 0; }
        uint64_t sd = strtoull(j.c_str() + p_ + 8, 0, 10); bool z = j.find("empty_denotation") != std::string::npos; static std::string d;
        int r = in_child([&] { bool ok = history(sd, z, &d); if (!ok) why = d + ": " + why; return ok; }, 20, &msg);
        printf("%s %s\n", r ? "REPRODUCED" : "NOT-REPRODUCED", msg.c_str()); return 0;
    }
    uint64_t N = argc > 1 ? strtoull(argv[1], 0, 10) : 20000, cases = 0;
    for (int shape = 0; shape < 3; shape++) {
        std::string msg; int r = in_child([&] { return waiters_case(shape); }, 20, &msg); ++cases;
        if (r) { for (auto& ch : msg) if (ch == '"') ch = '\''; printf("CEX waiters {\"kind\": \"waiters\", \"shape\": %d, \"why\": \"%s\"}\n", shape, msg.c_str()); return 3; }
    }
    for (int zl = 0; zl < 2; zl++) {
        for (uint64_t base = 0; base < N; base += 2000) {
            std::string msg; static uint64_t bad; static std::string d;
            int r = in_child([&] { for (uint64_t s = base; s < base + 2000 && s < N; s++) { d.clear(); uint64_t sd = seed0 * 1000003 + s; if (!history(sd, zl, &d)) { bad = sd; why = std::to_string(sd) + "|" + d + ": " + why; return false; } } return true; }, zl ? 20 : 600, &msg);
            if (r) {
                uint64_t sd = strtoull(msg.c_str(), 0, 10); for (auto& ch : msg) if (ch == '"') ch = '\'';
                const char* cls = zl ? "empty_denotation" : "ranges";
                if (zl && is_known("empty_denotation")) { printf("KNOWN empty_denotation {\"kind\": \"empty_denotation\", \"seed\": %lu, \"why\": \"%s\"}\n", (unsigned long)sd, msg.c_str()); break; }
                printf("CEX %s {\"kind\": \"%s\", \"seed\": %lu, \"why\": \"%s\"}\n", cls, cls, (unsigned long)sd, msg.c_str()); return 3;
            }
            cases += 2000;
        }
    }
    printf("OK %lu (three waiter scenarios: every thread blocked by a held range proceeds after the unlock; random single-vCPU histories of try_lock_wait2 / unlock / adjust_range on the real RangeLock against a shadow list; ranges up to the top of the 64-bit space; requests that denote no byte (length 0, or offset 2^64-1 under the saturating end) in a second campaign)\n", (unsigned long)cases);
    return 0;
}
