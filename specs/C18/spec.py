from engine.api import Target, Proof, Native
from engine.extract import fields_rule
ID = 'C18'
LEVEL = 'proof'
RL = 'common/range-lock.h'
SETR = [
    (r'range_t r\(offset, length\);', 'struct range_t r; range_ctor(&r, OFFSET, LENGTH);', 1),
    (r'SCOPED_LOCK\(m_lock\);', '/* m_lock held */;', 1),
    (r'(?:auto|__auto_type) it = m_index\.lower_bound\(r\);', 'int it = set_lower_bound(&r);', 1),
    (r'm_index\.end\(\)', 'SET_END', 1),
    (r'it->(offset|length)\b', r'S[it].\1', 1),
    (r'it->end\(\)', 'range_end(&S[it])', 0),
    (r'r\.end\(\)', 'range_end(&r)', 1),
    (r'it->cond\.wait\(m_lock\);', 'cond_wait(it);', 1),
    (r'm_index\.empty\(\)', '(M == 0)', 0), (r'm_index\.rbegin\(\)->(offset|length)\b', r'S[M - 1].\1', 0), (r'm_index\.rbegin\(\)->end\(\)', 'range_end(&S[M - 1])', 0),
    (r'm_index\.emplace_hint\(([^,()]+), r\)', r'set_emplace_hint(\1, &r)', 1),
    (r'std::min\(', 'std_min(', 0),
]
TARGETS = [
    Target('sat_add', 'common/utility.h', r'uint64_t sat_add\(uint64_t x, uint64_t y\)'),
    Target('r_ctor', RL, r'range_t\(uint64_t offset, uint64_t length\)'),
    Target('r_end', RL, r'uint64_t end\(\) const', rules=[(r'photon::sat_add\(', 'sat_add(', 0), fields_rule(['offset', 'length'])]),
    Target('r_lt', RL, r'bool operator < \(const range_t& rhs\) const', rules=[(r'(?<![\w>.])end\(\)', 'range_end(this)', 1), (r'rhs\.', 'rhs->', 1)]),
    Target('r_contains', RL, r'bool contains\(const range_t& x\) const', rules=[
        (r'(?<![\w>.])offset <= x\.offset', 'this->offset <= x->offset', 1), (r'(?<![\w>.])end\(\) >= x\.end\(\)', 'range_end(this) >= range_end(x)', 1)]),
    Target('try_lock_wait', RL, r'int try_lock_wait\(uint64_t& offset, uint64_t& length\)', rules=[
        (r'range_t r\(offset, length\);', 'struct range_t r; range_ctor(&r, *offset, *length);', 1)] + SETR[1:] + [
        (r'(?<![\w*>.&])offset = ', '*offset = ', 1), (r'(?<![\w*>.&])length = ', '*length = ', 1), (r'- offset;', '- *offset;', 1)]),
    Target('try_lock_wait2', RL, r'LockHandle\* try_lock_wait2\(uint64_t offset, uint64_t length\)', rules=[
        (r'range_t r\(offset, length\);', 'struct range_t r; range_ctor(&r, offset, length);', 1)] + SETR[1:] + [
        (r'return NULL;', 'return -1;', 1), (r'static_assert\([^;]*;', ';', 1), (r'm_index\.end\(\)', 'SET_END', 0),
        (r'return __reinterpret_cast<LockHandle\*>\(it\);', 'return it;', 1)]),
    Target('next_offset', RL, r'uint64_t next_offset\(iterator it\)', rules=[(r'm_index\.end\(\)', 'SET_END', 1), (r'it->offset', 'S[it].offset', 1)]),
    Target('prev_end', RL, r'uint64_t prev_end\(iterator it\)', rules=[(r'm_index\.begin\(\)', '0', 1), (r'\(--it\)->end\(\)', 'range_end(&S[--it])', 1)]),
    Target('adjust_range', RL, r'int adjust_range\(LockHandle\* h, uint64_t offset, uint64_t length\)', rules=[
        (r'if \(!h\) return -1;', 'if (h < 0) return -1;', 1),
        (r'range_t r1\(offset, length\);', 'struct range_t r1; range_ctor(&r1, offset, length);', 1),
        (r'SCOPED_LOCK\(m_lock\);', '/* m_lock held */;', 1),
        (r'(?:auto|__auto_type) it = __reinterpret_cast<iterator>\(h\);', 'int it = h;', 1),
        (r'(?:auto|__auto_type) r0 = \(range_t\*\) &\*it;', 'struct range_t *r0 = &S[it];', 1),
        (r'r1\.end\(\)', 'range_end(&r1)', 2), (r'it->end\(\)', 'range_end(&S[it])', 1),
        (r'(?<![\w>.])prev_end\(', 'RL_prev_end(', 1), (r'(?<![\w>.])next_offset\(', 'RL_next_offset(', 1)]),
    Target('unlock_range', RL, r'void unlock\(uint64_t offset, uint64_t length\)', rules=[
        (r'range_t r\(offset, length\);', 'struct range_t r; range_ctor(&r, offset, length);', 1)] + SETR[1:7] + [
        (r'r\.contains\(\*it\)', 'range_contains(&r, &S[it])', 1), (r'm_index\.erase\(it\)', 'set_erase(it)', 1)],
        marks={'count': 1, 0: dict(name='UL', frame=['it', 'G1_ERASED', 'N_ERASE'], effects={'set_erase': ['G1_ERASED', 'N_ERASE']}, pure=['range_end', 'range_contains'])}),
    Target('range_dtor', RL, r'~Range\(\) (?=\{)', rules=[(r'cond\.notify_all\(\)', 'cv_notify_all_(this)', 0), (r'cond\.notify_one\(\)', 'cv_notify_one_(this)', 0)]),
    Target('unlock_handle', RL, r'void unlock\(LockHandle\* h\)', rules=[
        (r'SCOPED_LOCK\(m_lock\);', '/* m_lock held */;', 1), (r'(?:auto|__auto_type) it = __reinterpret_cast<iterator>\(h\);', 'int it = h;', 1), (r'm_index\.erase\(it\)', 'set_erase(it)', 1)]),
]
UNITS = {'rl.c': 'rl.c.in', 'unlock.c': 'unlock.c.in'}
PROOFS = [
    Proof('order_lemmas', 'rl.c', 'lemma_order', kind='L', min_obligations=5),
    Proof('try_lock/grant', 'rl.c', 'h_try_lock_wait', kind='L', min_obligations=5, canaries=2),
    Proof('try_lock/refuse', 'rl.c', 'h_try_lock_conflict', kind='L', min_obligations=3, backend='cadical', timeout=3600),
    Proof('unlock/range', 'unlock.c', 'h_unlock_range', kind='L', min_obligations=4, backend='cadical'),
    Proof('unlock/handle', 'unlock.c', 'h_unlock_handle', kind='L', min_obligations=2),
    Proof('unlock/range_dtor', 'unlock.c', 'h_range_dtor', kind='L', min_obligations=1),
    Proof('adjust_range', 'rl.c', 'h_adjust', kind='L', min_obligations=4, backend='cadical', timeout=3600),
]
NATIVES = [Native('native', 'native.cpp', args_quick=[20000], args_thorough=[1000000], timeout=3000, link_photon=True, cxxflags=['-fpermissive'])]
REPLAY = 'native'
AUX_VIOLATION = True    # the native oracle covers histories on one vCPU, not every obligation: a failing loop-rule obligation is reported (no-failing-input-found), see DESIGN §4
TRUSTED = ['cbmc 6.11.0', 'lowering rules of specs/C18/spec.py', 'std::set modelled as a sorted array with assumed lower_bound/emplace_hint/erase contracts']
NOT_DECIDED = ['requests that denote no byte (length 0, offset 2^64-1): known finding, see known_findings.txt', 'a waiter is woken when the conflicting range is unlocked and eventually acquires (condition variable + scheduler)',
               'that ~Range() wakes the waiters (condition_variable::notify_all in a destructor run by std::set::erase)']
ASSUMPTIONS = []
