// C04 native layer: the REAL SleepQueue / Timeout / sat_add / set_error_number (compiled from /repo/thread/thread.cpp)
#include "../../../repo/thread/thread.cpp"
#include <cstdio>
#include <cstdlib>
#include <cstring>
#include <string>
#include <vector>
#include <algorithm>
#include <fstream>
#include <sstream>
using namespace photon;
static std::string why;
#define FAIL(m) do { why = m; return false; } while (0)
static uint64_t rs_;
static uint64_t rnd() { rs_ ^= rs_ << 13; rs_ ^= rs_ >> 7; rs_ ^= rs_ << 17; return rs_; }

static bool heap_ok(SleepQueue& q) {
    for (size_t k = 0; k < q.q.size(); ++k) {
        if (q.q[k]->idx != (int)k) FAIL("element does not know its position");
        if (k > 0 && q.q[(k - 1) / 2]->ts_wakeup > q.q[k]->ts_wakeup) FAIL("parent wakes later than child");
    }
    return true;
}
// one case: initial deadlines ts[0..n) pushed in order, then op (0 push ts[n], 1 pop_front, 2 pop element pos)
static bool run_case(const std::vector<uint64_t>& ts, int n, int op, int pos) {
    std::vector<thread*> pool;
    for (size_t i = 0; i < ts.size(); ++i) { auto t = (thread*)calloc(1, sizeof(thread)); t->ts_wakeup = ts[i]; t->idx = -1; pool.push_back(t); }
    SleepQueue q; bool ok = true;
    for (int i = 0; i < n; ++i) q.push(pool[i]);
    if (!heap_ok(q)) ok = false;
    if (ok && op == 0) { q.push(pool[n]); if (q.q.size() != (size_t)n + 1 || !heap_ok(q)) { if (why.empty()) why = "push: size"; ok = false; } }
    else if (ok && op == 1 && n >= 1) { auto t = q.pop_front(); uint64_t mn = *std::min_element(ts.begin(), ts.begin() + n);
        if (t->ts_wakeup != mn) { why = "pop_front: not the earliest"; ok = false; } else if (t->idx != -1) { why = "pop_front: idx not cleared"; ok = false; }
        else if (q.q.size() != (size_t)n - 1 || !heap_ok(q)) { if (why.empty()) why = "pop_front: size"; ok = false; } }
    else if (ok && op == 2) { int r = q.pop(pool[pos]);
        if (pos >= n) { if (r != -1 || q.q.size() != (size_t)n || !heap_ok(q)) { if (why.empty()) why = "pop(absent) changed the queue"; ok = false; } }
        else { if (r != 0 || pool[pos]->idx != -1 || q.q.size() != (size_t)n - 1 || !heap_ok(q)) { if (why.empty()) why = "pop: wrong result"; ok = false; }
               for (auto e : q.q) if (e == pool[pos]) { why = "pop: still queued"; ok = false; } } }
    for (auto t : pool) free(t);
    return ok;
}
// an interrupt that is reported by thread_yield() must not also end the thread's next, unrelated sleep
static volatile int y_phase = 0; static int y_ret, y_r1, y_e1; static uint64_t y_d1;
static void* y_worker(void*) {
    y_phase = 1;
    y_ret = photon::thread_yield();            // the main thread interrupts us while we are READY
    uint64_t t0 = photon::__update_now();
    errno = 0; y_r1 = photon::thread_usleep(20000); y_e1 = errno; y_d1 = photon::__update_now() - t0;
    y_phase = 2; return 0;
}
// two interrupts before the sleeper runs again: the one that ended the sleep is the one reported
static volatile int d_phase = 0; static int d_r, d_e;
static void* d_worker(void*) { d_phase = 1; errno = 0; d_r = photon::thread_usleep(-1UL); d_e = errno; d_phase = 2; return 0; }
static bool case_double_interrupt() {
    d_phase = 0;
    photon::vcpu_init();
    auto th = photon::thread_create(&d_worker, nullptr);
    while (d_phase != 1) photon::thread_yield();
    photon::thread_yield();                      // the worker is now asleep
    photon::thread_interrupt(th, ECANCELED);     // ends the sleep
    photon::thread_interrupt(th, EBUSY);         // the sleeper is READY with a parked reason: ends nothing
    while (d_phase != 2) photon::thread_usleep(1000);
    photon::vcpu_fini();
    if (d_r != -1 || d_e != ECANCELED) { why = "the sleeper reported errno " + std::to_string(d_e) + " instead of the reason of the interrupt that cut it short (ECANCELED)"; return false; }
    return true;
}
// a thread marked by thread_shutdown() must not block past the documented short bound (10 ms), whatever it blocks in
static volatile int s_phase = 0; static uint64_t s_plain_us, s_sem_us, s_defer_us; static int s_plain_r, s_sem_r, s_defer_r;
static void s_noop(void*) {}
static photon::semaphore* s_sem;
static void* s_worker(void*) {
    s_phase = 1;
    while (s_phase != 2) photon::thread_yield();              // main marks us in between
    uint64_t t0 = photon::__update_now(); s_plain_r = photon::thread_usleep(300 * 1000); s_plain_us = photon::__update_now() - t0;
    t0 = photon::__update_now(); s_defer_r = photon::thread_usleep_defer(300 * 1000, &s_noop, nullptr); s_defer_us = photon::__update_now() - t0;
    t0 = photon::__update_now(); s_sem_r = s_sem->wait(1, 300 * 1000); s_sem_us = photon::__update_now() - t0;
    s_phase = 3; return 0;
}
static int case_shutdown_bound() {      // 0 ok, 1 plain sleep uncapped, 2 wait-queue sleep uncapped
    photon::vcpu_init(); photon::semaphore sem(0); s_sem = &sem; s_phase = 0;
    auto th = photon::thread_create(&s_worker, nullptr);
    while (s_phase != 1) photon::thread_yield();
    photon::thread_shutdown(th, true); s_phase = 2;
    while (s_phase != 3) photon::thread_yield();      // stay runnable: with only the idler left, thread_usleep_defer() turns into thread_create + thread_usleep
    photon::vcpu_fini();
    if (s_plain_us > 250 * 1000) { why = "thread_usleep(300 ms) of a thread marked by thread_shutdown() blocked " + std::to_string(s_plain_us) + " us"; return 1; }
    if (s_defer_us > 250 * 1000) { why = "thread_usleep_defer(300 ms) of a thread marked by thread_shutdown() blocked " + std::to_string(s_defer_us) + " us"; return 1; }
    if (s_sem_us > 250 * 1000) { why = "semaphore::wait(1, 300 ms) of a thread marked by thread_shutdown() blocked " + std::to_string(s_sem_us) + " us (returned " + std::to_string(s_sem_r) + "): the 10 ms cap is applied by thread_usleep() only, not by the sleep every wait queue uses"; return 2; }
    return 0;
}
// one pass of resume_threads() wakes EVERY sleeper whose deadline has passed (none of them is left for a later pass)
static volatile int b_started = 0, b_done = 0;
static void* b_worker(void*) { b_started = b_started + 1; photon::thread_usleep(3000); b_done = b_done + 1; return 0; }
static bool case_resume_all_expired() {
    photon::vcpu_init(); b_started = b_done = 0; const int NB = 300;
    for (int i = 0; i < NB; ++i) photon::thread_create(&b_worker, nullptr);
    while (b_started < NB) photon::thread_yield();
    auto vcpu = CURRENT->get_vcpu(); uint64_t last = 0; size_t asleep = vcpu->sleepq.q.size();
    for (auto t : vcpu->sleepq.q) if (t->ts_wakeup > last) last = t->ts_wakeup;
    while (photon::__update_now() < last + 500) { }                  // no scheduling point: nobody is resumed meanwhile
    uint64_t t = photon::now; int left = 0;
    RunQ rq; resume_threads(vcpu, rq);
    for (auto th : vcpu->sleepq.q) if (th->ts_wakeup <= t) ++left;
    while (b_done < NB) photon::thread_usleep(1000);
    photon::vcpu_fini();
    if (left) { why = std::to_string(left) + " of " + std::to_string(asleep) + " sleepers whose deadline had passed were still in the sleep queue after one pass of resume_threads()"; return false; }
    return true;
}
static bool is_known(const char* cls) { const char* k = getenv("VERIF_KNOWN"); return k && strstr(k, cls); }
// an interrupt that arrives while the target is READY but NOT in a sleep or yield (here: created, not yet run) cut no sleep short:
// the target's next sleep must not report it
static volatile int f_phase = 0; static int f_r, f_e; static uint64_t f_us;
static void* f_worker(void*) { uint64_t t0 = photon::__update_now(); errno = 0; f_r = photon::thread_usleep(30 * 1000); f_e = errno; f_us = photon::__update_now() - t0; f_phase = 1; return 0; }
static bool case_stray_interrupt() {
    photon::vcpu_init(); f_phase = 0;
    auto th = photon::thread_create(&f_worker, nullptr);
    photon::thread_interrupt(th, EBUSY);           // the worker has not run yet: it is READY, not sleeping
    while (f_phase != 1) photon::thread_usleep(1000);
    photon::vcpu_fini();
    if (f_r != 0) { why = "thread_usleep(30 ms) slept " + std::to_string(f_us) + " us and returned -1/errno " + std::to_string(f_e) + ": the reason of an interrupt sent BEFORE the sleep began (the thread was READY, not sleeping) was delivered to it"; return false; }
    return true;
}
static bool case_yield_then_sleep() {
    y_phase = 0;
    photon::vcpu_init();
    auto th = photon::thread_create(&y_worker, nullptr);
    while (y_phase != 1) photon::thread_yield();
    photon::thread_interrupt(th, ECANCELED);
    while (y_phase != 2) photon::thread_usleep(1000);
    photon::vcpu_fini();
    if (y_ret == ECANCELED && y_r1 != 0) { why = "an interrupt already reported by thread_yield() also ended the next thread_usleep() (-1 after the full duration)"; return false; }
    return true;
}
static std::vector<uint64_t> jarr(const std::string& j, const char* key) {
    std::vector<uint64_t> r; auto p = j.find(std::string("\"") + key + "\""); if (p == std::string::npos) return r;
    p = j.find('[', p); auto e = j.find(']', p); std::stringstream ls(j.substr(p + 1, e - p - 1)); std::string t;
    while (std::getline(ls, t, ',')) if (t.find_first_of("0123456789") != std::string::npos) r.push_back(strtoull(t.c_str(), 0, 10));
    return r;
}
static long jnum(const std::string& j, const char* key) { auto p = j.find(std::string("\"") + key + "\""); if (p == std::string::npos) return 0; p = j.find(':', p); return strtol(j.c_str() + p + 1, 0, 10); }
int main(int argc, char** argv) {
    if (argc >= 3 && !strcmp(argv[1], "--replay")) {
        std::ifstream f(argv[2]); std::stringstream ss; ss << f.rdbuf(); std::string j = ss.str();
        if (j.find("shutdown") != std::string::npos || j.find("usleep/waitq") != std::string::npos) { int sb = case_shutdown_bound(); printf("%s %s\n", sb ? "REPRODUCED" : "NOT-REPRODUCED", why.c_str()); return 0; }
        if (j.find("resume_all") != std::string::npos || j.find("resume_pass") != std::string::npos) { bool ok = case_resume_all_expired(); printf("%s %s\n", ok ? "NOT-REPRODUCED" : "REPRODUCED", why.c_str()); return 0; }
        if (j.find("stray_interrupt") != std::string::npos || j.find("prepare_usleep") != std::string::npos) { bool ok = case_stray_interrupt(); printf("%s %s\n", ok ? "NOT-REPRODUCED" : "REPRODUCED", why.c_str()); return 0; }
        if (j.find("double_interrupt") != std::string::npos) { bool ok = case_double_interrupt(); printf("%s %s\n", ok ? "NOT-REPRODUCED" : "REPRODUCED", why.c_str()); return 0; }
        if (j.find("yield") != std::string::npos) { bool ok = case_yield_then_sleep(); printf("%s %s\n", ok ? "NOT-REPRODUCED" : "REPRODUCED", why.c_str()); return 0; }
        auto ts = jarr(j, "in_ts"); int n = (int)jnum(j, "in_n"); int op = j.find("push_n") != std::string::npos ? 0 : (j.find("pop_front_n") != std::string::npos ? 1 : 2);
        // the bounded harness starts from an arbitrary heap; replay it by inserting the same deadlines
        while ((int)ts.size() <= n) ts.push_back(0);
        bool ok = run_case(ts, n, op, (int)jnum(j, "in_pos"));
        printf("%s %s\n", ok ? "NOT-REPRODUCED" : "REPRODUCED", why.c_str()); return 0;
    }
    uint64_t N = argc > 1 ? strtoull(argv[1], 0, 10) : 100000, cases = 0;
    set_log_output_level(ALOG_FATAL);
    { ++cases; int sb = case_shutdown_bound();
      if (sb == 1) { printf("CEX shutdown {\"kind\": \"shutdown_plain\", \"why\": \"%s\"}\n", why.c_str()); return 3; }
      if (sb == 2) { if (is_known("waitq_shutdown_uncapped")) printf("KNOWN waitq_shutdown_uncapped {\"kind\": \"shutdown_waitq\", \"why\": \"%s\"}\n", why.c_str());
                     else { printf("CEX waitq_shutdown_uncapped {\"kind\": \"shutdown_waitq\", \"why\": \"%s\"}\n", why.c_str()); return 3; } } }
    ++cases; if (!case_resume_all_expired()) { printf("CEX resume_all {\"kind\": \"resume_all_expired\", \"why\": \"%s\"}\n", why.c_str()); return 3; }
    ++cases; if (!case_stray_interrupt()) { printf("CEX stray_interrupt {\"kind\": \"stray_interrupt\", \"why\": \"%s\"}\n", why.c_str()); return 3; }
    ++cases; if (!case_double_interrupt()) { printf("CEX interrupt {\"kind\": \"double_interrupt\", \"why\": \"%s\"}\n", why.c_str()); return 3; }
    ++cases; if (!case_yield_then_sleep()) { printf("CEX yield {\"kind\": \"yield_then_sleep\", \"why\": \"%s\"}\n", why.c_str()); return 3; }
    const char* sd = getenv("VERIF_SEED"); rs_ = 0x9E3779B97F4A7C15ull ^ (sd ? strtoull(sd, 0, 10) * 0x100000001B3ull : 1);
    for (uint64_t k = 0; k < N; ++k) {
        int n = rnd() % 40; std::vector<uint64_t> ts;
        for (int i = 0; i <= n; ++i) { uint64_t v = rnd() % 16; if (rnd() % 5 == 0) v = UINT64_MAX; if (rnd() % 7 == 0) v = rnd(); ts.push_back(v); }
        int op = rnd() % 3, pos = rnd() % (n + 1);
        ++cases; why.clear();
        if (!run_case(ts, n, op, pos)) { printf("CEX heap {\"in_n\": %d, \"op\": %d, \"in_pos\": %d, \"in_ts\": [", n, op, pos); for (size_t i = 0; i < ts.size(); ++i) printf("%s%lu", i ? ", " : "", ts[i]); printf("], \"why\": \"%s\"}\n", why.c_str()); return 3; }
    }
    // Timeout / sat arithmetic / interrupt reason on the real classes
    for (uint64_t k = 0; k < N; ++k) {
        uint64_t x = rnd() % 3 ? rnd() : rnd() % 100, y = rnd() % 3 ? rnd() : rnd() % 100; ++cases;
        unsigned __int128 s = (unsigned __int128)x + y;
        if (sat_add(x, y) != (s > UINT64_MAX ? UINT64_MAX : (uint64_t)s) || sat_sub(x, y) != (x < y ? 0 : x - y)) { printf("CEX sat {\"x\": %lu, \"y\": %lu, \"why\": \"saturating arithmetic\"}\n", x, y); return 3; }
    }
    printf("OK %lu (random heaps of up to 40 sleepers incl. equal and infinite deadlines: push / pop_front / pop on the real SleepQueue; sat_add/sat_sub)\n", cases);
    return 0;
}
