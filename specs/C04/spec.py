from engine.api import Target, Proof, Native
from engine.extract import fields_rule

ID = 'C04'
LEVEL = 'proof'
U = 'common/utility.h'
T = 'common/timeout.h'
TH = 'thread/thread.cpp'
Q = [(r'\bq\.push_back\(', 'vec_push_back(&this->q, ', 0), (r'\bq\.pop_back\(\)', 'vec_pop_back(&this->q)', 0),
     (r'\bq\.back\(\)', 'vec_back(&this->q)', 0), (r'\bq\.size\(\)', 'this->q.size', 0),
     (r'\bq\[([^\]]+)\]', r'VEC_AT(this->q, \1)', 0),
     # thread* is a pool index: p->f  ==>  POOL[p].f
     (r'(VEC_AT\(this->q, [^()]*\)|\b(?!this\b)[A-Za-z_]\w*)->(idx|ts_wakeup)\b', r'POOL[\1].\2', 0),
     (r'__auto_type (tmp|ret) = (VEC_AT)', r'th_t \1 = \2', 0)]
US = [(r'RunQ rq;', 'struct URunQ rq; rq.current = CURRENT_;', 0), (r'LOG_ERROR_RETURN\((\w+), (-?\w+),[^;]*;', r'{ errno = \1; return \2; }', 0),
      (r'__auto_type r = prepare_usleep\(timeout, (\w+), rq\);', r'struct USwitch r = prepare_usleep_(timeout, \1, rq);', 0),
      (r'switch_context\(r\.from, r\.to\);', 'switch_context_(r.from, r.to);', 0), (r'switch_context_defer\(r\.from, r\.to, defer, defer_arg\);', 'switch_context_defer_(r.from, r.to, defer, defer_arg);', 0),
      (r'r\.from->set_error_number\(\)', 'set_error_number_(r.from)', 0), (r'timeout\.(expired)\(\)', r'Timeout_\1(&timeout)', 0),
      (r'rq\.current->is_shutting_down\(\)', 'is_shutting_down_(rq.current)', 0), (r'AtomicRunQ\(rq\)\.defer_to_new_thread\(\)', 'defer_to_new_thread_(rq)', 0),
      (r'thread_create\(\(thread_entry&\)defer, defer_arg\);', 'thread_create_((void *)defer, defer_arg);', 0), (r'(?<![\w>.])thread_usleep\(timeout\)', 'photon_thread_usleep(timeout)', 0),
      (r'(?<![\w>.])thread_yield\(\)', 'thread_yield_()', 0)]
TARGETS = [
    Target('sat_add', U, r'uint64_t sat_add\(uint64_t x, uint64_t y\)'),
    Target('sat_sub', U, r'uint64_t sat_sub\(uint64_t x, uint64_t y\)'),
    Target('t_ctor', T, r'Timeout\(uint64_t x\)              (?=\{)', rules=[fields_rule(['m_expiration'])]),
    Target('t_set', T, r'uint64_t timeout\(uint64_t x\)     (?=\{)', rules=[fields_rule(['m_expiration'])]),
    Target('t_get', T, r'uint64_t timeout\(\) const         (?=\{)', rules=[fields_rule(['m_expiration'])]),
    Target('t_expired', T, r'bool expired\(\) const             (?=\{)', rules=[fields_rule(['m_expiration'], min_fires=2)]),
    Target('t_at_most', T, r'Timeout& timeout_at_most\(uint64_t x\)', rules=[fields_rule(['m_expiration'], min_fires=2),
           (r'return \*this;', 'return this;', 1)]),
    Target('set_error_number', TH, r'int set_error_number\(\)', rules=[fields_rule(['error_number'], min_fires=3)]),
    Target('waitq_translate_errno', TH, r'inline int waitq_translate_errno\(int ret\)'),
    Target('thread_yield', TH, r'int thread_yield\(\)\s*(?=\{\s*RunQ rq;)', rules=[
        (r'RunQ rq;', 'struct RunQ rq; rq.current = &CURTH;', 1), (r'if_update_now\(\);', ';', 1),
        (r'__auto_type sw = AtomicRunQ\(rq\)\.goto_next\(\);', '/* AtomicRunQ(rq).goto_next() */;', 1),
        (r'switch_context\(sw\.from, sw\.to\);', 'switch_context_ready();', 1)]),
    Target('prelocked_thread_interrupt', TH, r'static void prelocked_thread_interrupt\(thread\* th, int error_number\)', rules=[
        (r'vcpu_t\* vcpu = th->get_vcpu\(\);', 'struct vcpu_t *vcpu = ith_get_vcpu(th);', 1),
        (r'RunQ rq;', 'struct IRunQ rq; rq.current = I_CURRENT;', 1),
        (r'rq\.current->get_vcpu\(\)', 'ith_get_vcpu(rq.current)', 1),
        (r'th->dequeue_ready_atomic\(states::(\w+)\);', r'ith_dequeue_ready_atomic(th, states_\1);', 1),
        (r'th->dequeue_ready_atomic\(\);', 'ith_dequeue_ready_atomic(th, states_READY);', 1),   # default argument states::READY (thread.cpp:288)
        (r'vcpu->move_to_standbyq_atomic\(th\);', 'vcpu_move_to_standbyq_atomic(vcpu, th);', 1),
        (r'vcpu->sleepq\.pop\(th\);', 'vcpu_sleepq_pop(vcpu, th);', 1),
        (r'AtomicRunQ\(rq\)\.insert_tail\(th\);', 'runq_insert_tail(rq, th);', 1)]),
    Target('thread_interrupt', TH, r'void thread_interrupt\(thread\* th, int error_number\)\s*(?=\{)',
        pre_rules=[(r'LOG_ERROR_RETURN\(EINVAL, , "invalid parameter"\);', '{ errno = EINVAL; return; }', 1)],
        defers=dict(rettype='void', scoped_lock=('ith_lock(th) /* {0} */', 'ith_unlock(th) /* {0} */')),
        rules=[(r'states::(\w+)', r'states_\1', 1)]),
    Target('t_expiration', T, r'uint64_t expiration\(\) const      (?=\{)', rules=[fields_rule(['m_expiration'])]),
    Target('prepare_usleep', TH, r'Switch prepare_usleep\(Timeout timeout, thread_list\* waitq, RunQ rq = \{\}\)',
        pre_rules=[(r'spinlock\* waitq_lock = waitq \? &waitq->lock : nullptr;', 'int *waitq_lock = waitq ? &waitq->lock : NULL;', 1),
                   (r'SCOPED_LOCK\(waitq_lock, \(\(bool\) waitq\) \* 2\);', 'spin_lock_opt(waitq_lock); DEFER(spin_unlock_opt(waitq_lock));', 1),   # ScopedLock(ptr, 2*(ptr != 0)): locks iff the pointer is non-null
                   (r'SCOPED_LOCK\(rq\.current->lock\);', 'spin_lock_opt(&rq.current->lock); DEFER(spin_unlock_opt(&rq.current->lock));', 1)],
        defers=dict(rettype='struct ISwitch'),
        rules=[(r'__auto_type sw = AtomicRunQ\(rq\)\.remove_current\(states::(\w+)\);', r'struct ISwitch sw = runq_remove_current(rq, states_\1);', 1),
               (r'waitq->push_back\(sw\.from\);', 'twaitq_push_back(waitq, sw.from);', 1),
               (r'if_update_now\(true\);', 'if_update_now_();', 1),
               (r'timeout\.(expiration|timeout|expired)\(\)', r'Timeout_\1(&timeout)', 1),
               (r'sw\.from->get_vcpu\(\)->sleepq\.push\(sw\.from\);', 'vcpu_sleepq_push(ith_get_vcpu(sw.from), sw.from);', 1)]),
    Target('resume_threads_inlined', TH, r'int resume_threads_inlined\(vcpu_t\* vcpu, const RunQ& runq\)',
        pre_rules=[(r'else assert\(\(\{.*?\}\)\);', 'else { /* debug-only assert */ }', 1),
                   # SCOPED_LOCK in the do-while body: released at the end of every iteration; the rule fires only if no break/continue/return/goto lies between
                   (r'SCOPED_LOCK\(th->lock\);((?:(?!\b(?:break|continue|return|goto)\b).)*?)\} while\s*\(', r'rs_lock(th);\1 rs_unlock(th); } while(', 1)],
        rules=[(r'thread_list list;', 'struct tlist list; list.node = NULL;', 1),
               (r'auto& standbyq = vcpu->standbyq;', ';', 1), (r'auto& sleepq = vcpu->sleepq;', ';', 1),
               (r'standbyq\.eject_whole_atomic\(\)', 'standbyq_eject_whole_atomic(vcpu)', 1),
               (r'for \(__auto_type th: list\) \{', 'for (size_t it_ = 0; it_ < list_len(&list); it_++) { struct ithread *th = list_at(&list, it_);', 1),
               (r'states::(\w+)', r'states_\1', 1),
               (r'sleepq\.pop\(th\);', 'sleepq_pop_any(vcpu, th);', 1), (r'sleepq\.empty\(\)', 'sleepq_empty(vcpu)', 2),
               (r'sleepq\.front\(\)', 'sleepq_front(vcpu)', 1), (r'sleepq\.pop_front\(\);', 'sleepq_pop_front(vcpu);', 1),
               (r'if_update_now\(\);', 'if_update_now_rs();', 1),
               (r'th->dequeue_ready_atomic\(\);', 'ith_dequeue_ready_atomic(th, states_READY);', 1),
               (r'list\.push_back\(th\);', 'list_push_back(&list, th);', 1),
               (r'AtomicRunQ\(runq\)\.insert_list_before\(list\);', 'runq_insert_list_before(runq, &list);', 1)],
        marks={'count': 2,
               0: dict(name='SB', frame=['it_', 'count', 'SQ_N', 'G_IN_HEAP', 'GT', 'OT', 'th'], effects={'list_at': ['OT'], 'sleepq_pop_any': ['SQ_N', 'G_IN_HEAP']}, pure=['list_len', 'sat_add', 'sat_sub'], ptr_targets={'th': ['GT', 'OT']}),
               1: dict(name='EX', frame=['count', 'SQ_N', 'L_LEN', 'G_IN_HEAP', 'G_IN_LIST', 'GT', 'OT', 'G_CLASS', 'FRONT_', 'N_LOCKS', 'th', 'N_DEQ', 'DEQ_STATE'],
                       effects={'sleepq_front': ['OT', 'FRONT_'], 'rs_lock': ['GT', 'OT', 'G_CLASS', 'N_LOCKS'], 'rs_unlock': ['GT', 'OT', 'N_LOCKS'], 'sleepq_pop_front': ['SQ_N', 'G_IN_HEAP', 'FRONT_'],
                                'ith_dequeue_ready_atomic': ['GT', 'OT', 'N_DEQ', 'DEQ_STATE'], 'list_push_back': ['L_LEN', 'G_IN_LIST']}, pure=['sleepq_empty', 'sat_add', 'sat_sub'], ptr_targets={'th': ['GT', 'OT']})}),
    Target('th_min', TH, r'inline uint64_t min\(uint64_t a, uint64_t b\)'),
    Target('idle_wait', TH, r'auto usec = 10 \* 1024 \* 1024; // max', region_end=r'\n\s*\}\s*return nullptr;', rules=[
        (r'auto& sleepq = vcpu->sleepq;', ';', 1), (r'sleepq\.empty\(\)', 'sleepq_empty(vcpu)', 1), (r'sleepq\.front\(\)', 'sleepq_front(vcpu)', 1),
        (r'(?<![\w>.])min\(', 'photon_min(', 1),
        (r'vcpu->master_event_engine->wait_and_fire_events\(', 'engine_wait_and_fire_events(vcpu, ', 1)]),
    Target('do_thread_usleep', TH, r'static int do_thread_usleep\(Timeout timeout, RunQ rq\)', rules=US),
    Target('do_thread_usleep_defer', TH, r'static int do_thread_usleep_defer\(Timeout timeout,\s*defer_func defer, void\* defer_arg, RunQ rq\)', rules=US),
    Target('yield_as_sleep', TH, r'inline int yield_as_sleep\(\)', rules=US),
    Target('thread_usleep_waitq', TH, r'static int thread_usleep\(Timeout timeout, thread_list\* waitq\)', rules=US + [(r'__auto_type r = prepare_usleep\(timeout, waitq\);', 'struct URunQ rq; rq.current = CURRENT_; struct USwitch r = prepare_usleep_(timeout, waitq, rq);', 1)]),
    Target('thread_usleep_pub', TH, r'int thread_usleep\(Timeout timeout\) (?=\{)', rules=US),
    Target('thread_usleep_defer_pub', TH, r'int thread_usleep_defer\(Timeout timeout, defer_func defer, void\* defer_arg\) (?=\{)', rules=US),
    Target('thread_pause_work_stealing', 'thread/thread.h', r'inline void thread_pause_work_stealing\(bool flag, thread\* th = CURRENT\)', refs=True,
           rules=[(r'\(\((?:photon::)?partial_thread\*\)\s*(?:photon::)?(\w+)\)', r'((struct partial_thread *)\1)', 0), (r'photon::', '', 0)]),
    Target('scoped_pause_macro', 'thread/thread.h', r'#define SCOPED_PAUSE_WORK_STEALING', region_end=r'\n\s*\n', refs=True,
           pre_rules=[(r'#define SCOPED_PAUSE_WORK_STEALING', '{', 1), (r'\\\n', '\n', 1), (r'\s*\Z', ' MID_SCOPE(); }', 1)],
           defers=dict(rettype='void'),
           rules=[(r'\(\((?:photon::)?partial_thread\*\)\s*(?:photon::)?(\w+)\)', r'((struct partial_thread *)\1)', 0), (r'photon::', '', 0)]),
    Target('th_is_bit', TH, r'bool is_bit\(int i\) (?=\{)', rules=[fields_rule(['flags'])]),
    Target('th_clear_bit', TH, r'void clear_bit\(int i\) (?=\{)', rules=[fields_rule(['flags'])]),
    Target('th_set_bit1', TH, r'void set_bit\(int i\) (?=\{)', rules=[fields_rule(['flags'])]),
    Target('th_set_bit2', TH, r'void set_bit\(int i, bool flag\) (?=\{)', rules=[(r'(?<![\w>.])set_bit\(i\)', 'fth_set_bit1(this, i)', 1), (r'(?<![\w>.])clear_bit\(i\)', 'fth_clear_bit(this, i)', 1)]),
    Target('th_is_shutting_down', TH, r'bool is_shutting_down\(\) (?=\{)', rules=[(r'(?<![\w>.])is_bit\(shift::(\w+)\)', r'fth_is_bit(this, shift_\1)', 1)]),
    Target('th_set_shutting_down', TH, r'void set_shutting_down\(bool flag = true\) (?=\{)', rules=[(r'(?<![\w>.])set_bit\(shift::(\w+), flag\)', r'fth_set_bit(this, shift_\1, flag)', 1)]),
    Target('thread_shutdown', TH, r'int thread_shutdown\(thread\* th, bool flag\)', rules=[
        (r'LOG_ERROR_RETURN\((\w+), (-?\w+),[^;]*;', r'{ errno = \1; return \2; }', 1), (r'th->set_shutting_down\(', 'fth_set_shutting_down(th, ', 1),
        (r'states::(\w+)', r'states_\1', 1), (r'(?<![\w>.])thread_interrupt\(', 'thread_interrupt_(', 1)]),
    Target('shutdown_usleep', TH, r'static int do_shutdown_usleep\(Timeout timeout, RunQ rq\)', rules=[
        (r'timeout\.timeout_at_most\(', 'Timeout_at_most(&timeout, ', 1)]),
    Target('shutdown_usleep_defer', TH, r'static int do_shutdown_usleep_defer\(Timeout timeout,\s*defer_func defer, void\* defer_arg, RunQ rq\)', rules=[
        (r'timeout\.timeout_at_most\(', 'Timeout_at_most(&timeout, ', 1)]),
    Target('thread_lt', TH, r'bool operator < \(const thread &rhs\)', rules=[(r'this->ts_wakeup', 'POOL[this].ts_wakeup', 1), (r'rhs\.ts_wakeup', 'POOL[rhs].ts_wakeup', 1)]),
    Target('update_node', TH, r'void update_node\(int idx, thread \*&obj\)', rules=Q + [(r'= obj;', '= *obj;', 1)]),
    Target('up', TH, r'bool up\(int idx\)', rules=Q + [
        (r'\*tmp < \*(VEC_AT\([^)]*\))', r'thread_lt(tmp, \1)', 1),
        (r'update_node\(idx, (VEC_AT\([^)]*\))\);', r'SQ_update_node(this, idx, &\1);', 1),
        (r'update_node\(idx, tmp\);', 'SQ_update_node(this, idx, &tmp);', 1)]),
    Target('down', TH, r'bool down\(int idx\)', rules=Q + [
        (r'\*(VEC_AT\(this->q, cmpIdx \+ 1\)) < \*(VEC_AT\(this->q, cmpIdx\))', r'thread_lt(\1, \2)', 1),
        (r'\*(VEC_AT\(this->q, cmpIdx\)) < \*tmp', r'thread_lt(\1, tmp)', 1),
        (r'update_node\(idx, (VEC_AT\([^)]*\))\);', r'SQ_update_node(this, idx, &\1);', 1),
        (r'update_node\(idx, tmp\);', 'SQ_update_node(this, idx, &tmp);', 1)]),
    Target('push', TH, r'int push\(thread \*obj\)', rules=Q + [(r'(?<![\w>.])up\(', 'SQ_up(this, ', 1)]),
    Target('pop_front', TH, r'thread\* pop_front\(\)', rules=Q + [(r'(?<![\w>.])down\(', 'SQ_down(this, ', 1)]),
    Target('pop', TH, r'int pop\(thread \*obj\)', rules=Q + [(r'(?<![\w>.])up\(', 'SQ_up(this, ', 1), (r'(?<![\w>.])down\(', 'SQ_down(this, ', 1)]),
]
UNITS = {'sleep.c': 'sleep.c.in', 'sched.c': 'sched.c.in', 'usleep.c': 'usleep.c.in', 'flags.c': 'flags.c.in'}
PROOFS = [
    Proof('sat_arith', 'sleep.c', 'h_sat', kind='L', min_obligations=2),
    Proof('timeout', 'sleep.c', 'h_timeout', kind='L', min_obligations=5),
    Proof('error_number', 'sleep.c', 'h_error_number', kind='L', min_obligations=5),
    Proof('yield_consumes_interrupt', 'sleep.c', 'h_yield', kind='L', min_obligations=2),
    Proof('interrupt/sleeper', 'sched.c', 'h_prelocked', kind='L', min_obligations=4),
    Proof('interrupt/dispatch', 'sched.c', 'h_interrupt', kind='L', defines=['STUB_PRELOCKED'], min_obligations=5),
    Proof('prepare_usleep', 'sched.c', 'h_prepare_usleep', kind='L', min_obligations=6),
    Proof('resume_pass', 'sched.c', 'h_resume_threads', kind='L', min_obligations=8, expect_loops=2, aux_violation=True),
    Proof('idle_wait', 'sched.c', 'h_idle_wait', kind='L', min_obligations=3),
    Proof('usleep/dispatch', 'usleep.c', 'h_usleep', kind='L', min_obligations=4),
    Proof('usleep/waitq', 'usleep.c', 'h_usleep_waitq', kind='L', min_obligations=3),
    Proof('usleep/defer', 'usleep.c', 'h_usleep_defer', kind='L', min_obligations=4),
    Proof('flags/pause_scope', 'flags.c', 'h_pause_scope', kind='L', min_obligations=3),
    Proof('flags/thread_shutdown', 'flags.c', 'h_thread_shutdown', kind='L', min_obligations=4),
    Proof('shutdown_cap', 'sleep.c', 'h_shutdown', kind='L', min_obligations=3),
    Proof('sleepq/push_n6', 'sleep.c', 'h_heap', kind='B', defines=['HN=7', 'OP=0'], unwind=10, bound='at most 6 sleepers before the operation, all 64-bit deadlines', timeout=900, mem_gb=16),
    Proof('sleepq/push_n14', 'sleep.c', 'h_heap', kind='B', defines=['HN=15', 'OP=0'], unwind=18, bound='at most 14 sleepers before the operation, all 64-bit deadlines', timeout=3000, mem_gb=24, tier='thorough'),
    Proof('sleepq/pop_front_n6', 'sleep.c', 'h_heap', kind='B', defines=['HN=7', 'OP=1'], unwind=10, bound='at most 6 sleepers before the operation, all 64-bit deadlines', timeout=900, mem_gb=16),
    Proof('sleepq/pop_front_n14', 'sleep.c', 'h_heap', kind='B', defines=['HN=15', 'OP=1'], unwind=18, bound='at most 14 sleepers before the operation, all 64-bit deadlines', timeout=3000, mem_gb=24, tier='thorough'),
    Proof('sleepq/pop_n6', 'sleep.c', 'h_heap', kind='B', defines=['HN=7', 'OP=2'], unwind=10, bound='at most 6 sleepers before the operation, all 64-bit deadlines', timeout=900, mem_gb=16),
    Proof('sleepq/pop_n14', 'sleep.c', 'h_heap', kind='B', defines=['HN=15', 'OP=2'], unwind=18, bound='at most 14 sleepers before the operation, all 64-bit deadlines', timeout=3000, mem_gb=24, tier='thorough'),
]
NATIVES = [Native('native', 'native.cpp', args_quick=[100000], args_thorough=[5000000], timeout=1800, link_photon=True, cxxflags=['-fpermissive'])]
REPLAY = 'native'
TRUSTED = ['cbmc 6.11.0', 'lowering rules of specs/C04/spec.py']
NOT_DECIDED = ['"runs again no later than the first scheduling round after its deadline" (resume_threads / idle loop across vCPUs)',
               'ordering of a cross-vCPU interrupt against deadline expiry (standby queue hand-off)',
               'the context switch itself (assembly)']
ASSUMPTIONS = []
