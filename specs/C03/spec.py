from engine.api import Target, Proof, Native
ID = 'C03'
LEVEL = 'proof'
TC = 'thread/thread.cpp'
CVW = [(r'cvar_do_wait\(\(thread_list\*\)&q, m, timeout, (\w+), (\w+)\)', r'cvar_do_wait_c(&this->q, m, timeout, \1, \2)', 0),
       (r'm->unlock\(\)', 'direct_unlock(m)', 0), (r'm->lock\(\)', 'direct_lock(m)', 0), (r'waitq::wait\(timeout\)', 'waitq_wait_(this, timeout)', 0)]
TARGETS = [
    Target('waitq_translate_errno', TC, r'inline int waitq_translate_errno\(int ret\)'),
    Target('cvar_do_wait', TC, r'static int cvar_do_wait\(thread_list\* q, void\* m, Timeout timeout, int\(\*lock\)\(void\*\), void\(\*unlock\)\(void\*\)\)', rules=[
        (r'LOG_ERROR_RETURN\(EINVAL, -1,[^;]*;', '{ errno = EINVAL; return -1; }', 1), (r'LOG_ERROR\([^;]*;', ';', 1),
        (r'thread_usleep_defer\(', 'thread_usleep_defer_(', 1), (r'(\w+)\.(expired|expiration|timeout)\(\)', r'Timeout_\2_(&\1)', 0), (r'thread_usleep\(1000, NULL\)', 'thread_usleep_(1000, NULL)', 1)],
        marks={'count': 1, 0: dict(name='CVW', frame=['lock_ret', 'errno', 'N_LOCK_CALLS', 'N_BACKOFF', 'LOCK_HELD', 'N_LOCK_OK'],
               effects={'lock': ['errno', 'N_LOCK_CALLS', 'LOCK_HELD', 'N_LOCK_OK'], 'thread_usleep_': ['errno', 'N_BACKOFF']}, pure=[])}),
    Target('cv_wait_mutex', TC, r'int condition_variable::wait\(mutex\* m, Timeout timeout\)', rules=CVW),
    Target('cv_wait_spin', TC, r'int condition_variable::wait\(spinlock\* m, Timeout timeout\)', rules=CVW),
    Target('resume_one', TC, r'thread\* waitq::resume_one\(int error_number\)', pre_rules=[
        (r'ScopedLockHead h\(this\);', 'th_t h = SLH_ctor(this); DEFER(SLH_dtor(h));', 1)], defers=dict(rettype='th_t'),
        rules=[(r'prelocked_thread_interrupt\(', 'prelocked_thread_interrupt_(', 1)]),
    Target('resume_all', TC, r'int waitq::resume_all\(int error_number\)', rules=[
        (r'(?<![\w>.])resume_one\(', 'WQ_resume_one(this, ', 1), (r'^\{', '{ int Q0_ = QN;', 1)],
        marks={'count': 1, 0: dict(name='RALL', frame=['r', 'QN', 'N_INTR'], effects={'WQ_resume_one': ['QN', 'N_INTR']}, pure=[])}),
]
# a resumed waiter is woken with the reason -1 parked in its error_number (waitq::resume_one / semaphore::try_resume ->
# prelocked_thread_interrupt): thread_interrupt must not replace it.  The kernel is C04's (specs/C04/sched.c.in + its targets),
# re-run here so that this property sees a change of that function too.
import importlib.util as _ilu, os as _os
_sp = _ilu.spec_from_file_location('spec_C04_for_C03', _os.path.join(_os.path.dirname(__file__), '..', 'C04', 'spec.py'))
_c04 = _ilu.module_from_spec(_sp); _sp.loader.exec_module(_c04)
_need = ('t_expiration', 'sat_add', 'sat_sub', 't_get', 't_expired', 'prelocked_thread_interrupt', 'thread_interrupt', 'prepare_usleep', 'resume_threads_inlined', 'th_min', 'idle_wait')
TARGETS += [t for t in _c04.TARGETS if t.name in _need and t.name not in [x.name for x in TARGETS]]
UNITS = {'cv.c': 'cv.c.in', 'sched.c': '../C04/sched.c.in'}
PROOFS = [
    Proof('cvar_do_wait', 'cv.c', 'h_cvar_wait', kind='L', min_obligations=4),
    Proof('resume/interrupt_keeps_reason', 'sched.c', 'h_interrupt', kind='L', defines=['STUB_PRELOCKED'], min_obligations=5),
    Proof('resume/wake_sleeper', 'sched.c', 'h_prelocked', kind='L', min_obligations=4),
    Proof('resume/prepare_usleep', 'sched.c', 'h_prepare_usleep', kind='L', min_obligations=6),
    Proof('wait_overloads', 'cv.c', 'h_cv_wait_overloads', kind='L', min_obligations=3),
    Proof('resume', 'cv.c', 'h_resume', kind='L', min_obligations=3),
]
NATIVES = [Native('native', 'native.cpp', args_quick=[400], args_thorough=[20000], timeout=3000, link_photon=True, cxxflags=['-fpermissive'])]
REPLAY = 'native'
AUX_VIOLATION = True    # no native oracle: a failing loop-rule obligation is reported (no-failing-input-found), see DESIGN §4
TRUSTED = ['cbmc 6.11.0', 'lowering rules of specs/C03/spec.py']
NOT_DECIDED = ['atomic release-and-wait (it IS the deferred unlock executed on the next thread\'s stack: assembly + scheduler)',
               '"wakes exactly one thread that was waiting at that moment" across vCPUs', 'timeouts racing with notifications']
ASSUMPTIONS = []
