// C03 native layer: random single-vCPU histories on the REAL photon::condition_variable with a photon::mutex or spinlock (compiled
// from the working tree's thread.cpp / thread.h): waiters call wait(lock, timeout) in a loop, the orchestrating thread mixes
// notify_one / notify_all / thread_interrupt / pauses.  Oracle:
//   * wait() always returns with the lock held (exclusion counter inside the lock; the lock can be released by the returning thread)
//   * a notification is not lost: (# waits that returned 0) == (# notify_one that reported a woken thread) + (sum of notify_all counts)
//   * a notify that reports a woken thread had a waiter to wake; a wait returns -1/ETIMEDOUT only at/after its deadline and
//     -1/<interrupter's errno> when interrupted; every waiter finishes (watchdog in a forked child)
#include "../../../repo/thread/thread.cpp"
#include <cstdio>
#include <cstdlib>
#include <cstring>
#include <string>
#include <vector>
#include <fstream>
#include <sstream>
#include <unistd.h>
#include <sys/wait.h>
using namespace photon;
static std::string why;
static uint64_t rs_;
static uint64_t rnd() { rs_ ^= rs_ << 13; rs_ ^= rs_ >> 7; rs_ ^= rs_ << 17; return rs_; }
struct World { photon::condition_variable cv; photon::mutex m; photon::spinlock sl; bool use_spin = false; int inside = 0; int waiting = 0; long zeros = 0, notified = 0; bool bad = false; std::string badwhy; int done = 0; };
struct Waiter { World* w; int rounds; std::vector<uint64_t> timeouts; photon::thread* th = nullptr; bool finished = false; };
static void* waiter_fn(void* a) {
    auto me = (Waiter*)a; auto w = me->w;
    for (int k = 0; k < me->rounds; k++) {
        if (w->use_spin) w->sl.lock(); else while (w->m.lock() != 0) { }      // an interrupted lock() reports -1: try again
        if (w->inside) { w->bad = true; w->badwhy = "two threads hold the lock"; } w->inside++;
        uint64_t tmo = me->timeouts[k]; uint64_t t0 = photon::__update_now();
        w->inside--; w->waiting++;
        errno = 0; int r = w->use_spin ? w->cv.wait(w->sl, tmo) : w->cv.wait(w->m, tmo); int e = errno;
        w->waiting--;
        if (w->inside) { w->bad = true; w->badwhy = "wait() returned while another thread holds the lock: it came back without the lock"; } w->inside++;
        uint64_t dt = photon::__update_now() - t0;
        if (r == 0) w->zeros++;
        else if (r != -1) { w->bad = true; w->badwhy = "wait() returned neither 0 nor -1"; }
        else if (e == ETIMEDOUT) { if (tmo == (uint64_t)-1 || dt + 200 < tmo) { w->bad = true; w->badwhy = "wait() reported ETIMEDOUT after " + std::to_string(dt) + " us of a " + std::to_string(tmo) + " us timeout"; } }
        else if (e != EINTR) { w->bad = true; w->badwhy = "a failed wait() reported errno " + std::to_string(e) + " (neither ETIMEDOUT nor the interrupter's)"; }
        w->inside--;
        if (w->use_spin) w->sl.unlock(); else w->m.unlock();
        if (rnd() % 2) photon::thread_yield();
    }
    me->finished = true; w->done++; return 0;
}
static bool history(uint64_t seed, std::string* desc) {
    rs_ = seed * 0x9E3779B97F4A7C15ull + 33; if (!rs_) rs_ = 1;
    World w; w.use_spin = rnd() % 3 == 0; int nw = 1 + rnd() % 5; std::vector<Waiter> ws(nw); char b[96];
    snprintf(b, sizeof b, "%s waiters=%d ops:", w.use_spin ? "spinlock" : "mutex", nw); *desc = b;
    for (auto& k : ws) { k.w = &w; k.rounds = 1 + rnd() % 3; for (int i = 0; i < k.rounds; i++) k.timeouts.push_back(rnd() % 3 == 0 ? 2000 + rnd() % 4000 : (uint64_t)-1); }
    for (auto& k : ws) k.th = photon::thread_create(&waiter_fn, &k);
    for (int round = 0; round < 6000 && w.done < nw; round++) {
        int op = rnd() % 6;
        if (op == 0) { auto t = w.cv.notify_one(); *desc += " n1"; if (t) { w.notified++; if (w.waiting == 0) { w.bad = true; w.badwhy = "notify_one() reports a woken thread although nobody was waiting"; } } }
        else if (op == 1) { int n = w.cv.notify_all(); *desc += " nA"; if (n < 0 || n > w.waiting) { w.bad = true; w.badwhy = "notify_all() reports " + std::to_string(n) + " woken threads with " + std::to_string(w.waiting) + " waiting"; } w.notified += n; }
        else if (op == 2) { auto& k = ws[rnd() % nw]; if (!k.finished && photon::thread_stat(k.th) == photon::states::SLEEPING) { photon::thread_interrupt(k.th, EINTR); *desc += " int"; } }
        else if (op == 3) photon::thread_usleep(500);
        else if (op == 4 && !w.use_spin) {
            // notify while HOLDING the mutex and keep it for a while: the woken waiters block in wait()'s re-lock; deadlines may pass
            // and interrupts may arrive in that window - wait() must still return 0 (it consumed the notification), with the lock
            while (w.m.lock() != 0) { } if (w.inside) { w.bad = true; w.badwhy = "two threads hold the lock"; } w.inside++;
            if (rnd() % 2) { auto t = w.cv.notify_one(); if (t) w.notified++; } else { int n = w.cv.notify_all(); if (n > 0) w.notified += n; }
            *desc += " Ln";
            uint64_t hold = 1000 + rnd() % 6000;
            if (rnd() % 2) { photon::thread_usleep(hold / 2); auto& k = ws[rnd() % nw]; if (!k.finished && photon::thread_stat(k.th) == photon::states::SLEEPING) { photon::thread_interrupt(k.th, EINTR); *desc += "i"; } photon::thread_usleep(hold / 2); }
            else photon::thread_usleep(hold);
            w.inside--; w.m.unlock();
        }
        else photon::thread_yield();
        if (w.bad) break;
    }
    // release whoever still waits without a timeout
    for (int round = 0; round < 3000 && w.done < nw; round++) { int n = w.cv.notify_all(); if (n > 0) w.notified += n; photon::thread_usleep(500); }
    if (w.bad) { why = w.badwhy; return false; }
    if (w.done < nw) { why = "a waiter never returned although it was notified"; return false; }
    if (w.zeros != w.notified) { char m[160]; snprintf(m, sizeof m, "%ld wait()s returned 0 but the notify calls report %ld woken waiters (a notification was lost or invented)", w.zeros, w.notified); why = m; return false; }
    return true;
}
template<class F> static int in_child(F f, int secs, std::string* msg) {
    int p[2]; if (pipe(p)) return 2;
    pid_t c = fork();
    if (c == 0) { close(p[0]); alarm(secs); if (photon::vcpu_init() < 0) _exit(9); bool ok = f(); if (!ok) { ssize_t r_ = write(p[1], why.c_str(), why.size()); (void)r_; } _exit(ok ? 0 : 1); }
    close(p[1]); char buf[900]; ssize_t n = read(p[0], buf, sizeof buf - 1); if (n < 0) n = 0; buf[n] = 0; close(p[0]);
    int st = 0; waitpid(c, &st, 0);
    if (WIFEXITED(st) && WEXITSTATUS(st) == 0) return 0;
    if (WIFEXITED(st) && WEXITSTATUS(st) == 1) { *msg = buf; return 1; }
    *msg = "hang or crash (watchdog)"; return 2;
}
int main(int argc, char** argv) {
    set_log_output_level(ALOG_FATAL + 1);
    uint64_t seed0 = getenv("VERIF_SEED") ? strtoull(getenv("VERIF_SEED"), 0, 10) : 1;
    if (argc >= 3 && !strcmp(argv[1], "--replay")) {
        std::ifstream f(argv[2]); std::stringstream ss; ss << f.rdbuf(); std::string j = ss.str(), msg; auto p_ = j.find("\"seed\": ");
        if (p_ == std::string::npos) { printf("NOT-REPRODUCED no concrete history for this obligation\n"); return 0; }
        uint64_t sd = strtoull(j.c_str() + p_ + 8, 0, 10); static std::string d;
        int r = in_child([&] { bool ok = history(sd, &d); if (!ok) why = d.substr(0, 300) + ": " + why; return ok; }, 60, &msg);
        printf("%s %s\n", r ? "REPRODUCED" : "NOT-REPRODUCED", msg.c_str()); return 0;
    }
    uint64_t N = argc > 1 ? strtoull(argv[1], 0, 10) : 400, cases = 0;
    for (uint64_t base = 0; base < N; base += 40) {
        std::string msg; static std::string d;
        int r = in_child([&] { for (uint64_t s = base; s < base + 40 && s < N; s++) { d.clear(); uint64_t sd = seed0 * 1000003 + s; if (!history(sd, &d)) { why = std::to_string(sd) + "|" + d.substr(0, 200) + ": " + why; return false; } } return true; }, 300, &msg);
        if (r) { uint64_t sd = strtoull(msg.c_str(), 0, 10); for (auto& ch : msg) if (ch == '"') ch = '\''; printf("CEX cv {\"kind\": \"cv\", \"seed\": %lu, \"why\": \"%s\"}\n", (unsigned long)sd, msg.c_str()); return 3; }
        cases += 40;
    }
    printf("OK %lu (random single-vCPU histories of wait(lock, timeout) / notify_one / notify_all / interrupt on the real condition_variable: returns with the lock, notifications neither lost nor invented, result mapping)\n", (unsigned long)cases);
    return 0;
}
