from engine.api import Target, Proof, Native
from engine.extract import fields_rule
ID = 'C07'
LEVEL = 'proof'
Q = 'common/lockfree_queue.h'
BF = fields_rule(['capacity', 'mask', 'shift', 'lshift'])
BF_OPT = fields_rule(['capacity', 'mask', 'shift', 'lshift'], min_fires=0)
MP = [
    (r'tail\.load\([^)]*\)', 'mp_load(this, &this->b.tail)', 0), (r'head\.load\([^)]*\)', 'mp_load(this, &this->b.head)', 0),
    (r'tail\.compare_exchange_strong\((\w+), (\w+ \+ 1)\)', r'mp_cas(this, &this->b.tail, &\1, \2)', 0),
    (r'head\.compare_exchange_strong\((\w+), (\w+ \+ 1)\)', r'mp_cas(this, &this->b.head, &\1, \2)', 0),
    (r'auto& ps = slots\[idx\((\w+)\)\];', r'struct packedslot *ps = &this->slots[Base_idx(&this->b, \1)];', 1),
    (r'auto& slot = ps\.data;', 'uint64_t *slot = &ps->data;', 1), (r'auto& mark = ps\.mark;', 'uint64_t *mark = &ps->mark;', 1),
    (r'mark\.load\([^)]*\)', 'mp_load(this, mark)', 1),
    (r'mark\.store\(([^,]+), std::memory_order_release\)', r'mp_store_mark(this, mark, \1)', 1),
    (r'(last_turn_read|this_turn_write|this_turn_read)\(', r'Q_\1(&this->b, ', 2),
    (r'Base::check_(full|empty)\(', r'Base_check_\1(&this->b, ', 1),
    (r'__auto_type const (\w+) = ', r'uint64_t \1 = ', 1),
]
SR = [(r'static_assert\((?:[^()]|\([^()]*\))*\);', ';', 1), (r'(tail|head)\.fetch_add\(1\)', r'mp_claim(this, &this->b.\1)', 1), (r'Pause::pause\(\);', 'pause_();', 1),
      (r'mark\.load\([^)]*\)', 'mp_load_mark(this, mark)', 1)] + [r_ for r_ in MP if 'mark\\.load' not in r_[0] and 'check_' not in r_[0]]
BQ_RULES = [
    (r'\b(tail|head|write_head|read_tail)\.load\([^)]*\)', r'bq_load(this, &this->BQF_\1)', 1),
    (r'\b(tail|head|write_head|read_tail)\.compare_exchange_strong\(\s*(\w+), ([^,]+),\s*std::memory_order_acq_rel\)', r'bq_cas(this, &this->BQF_\1, &\2, \3)', 1),
    (r'std::min\(', 'MIN_(', 1), (r'Base::capacity', 'this->b.capacity', 1), (r'(?<![\w>.:])idx\(', 'Base_idx(&this->b, ', 1),
    (r'(?<![\w>.])memcpy\(', 'bq_memcpy(this, ', 1), (r'(?<![\w>.])slots\[', 'this->slots[', 1), (r'sizeof\(T\)', 'sizeof(uint64_t)', 1),
]
SPR = [
    (r'\b(tail|head)\.load\([^)]*\)', r'sp_load(this, &this->b.\1)', 0), (r'\b(tail|head)\.store\(([^,]+), std::memory_order_release\)', r'sp_store(this, &this->b.\1, \2)', 1),
    (r'(?<![\w>.&])(head|tail)(?![\w.(])', r'sp_load(this, &this->b.\1)', 0),      # implicit atomic load (operator T)
    (r'Base::check_(full|empty)\(', r'Base_check_\1(&this->b, ', 0), (r'std::min\(', 'MIN_(', 0), (r'Base::capacity', 'this->b.capacity', 0),
    (r'(?<![\w>.:])idx\(', 'Base_idx(&this->b, ', 1), (r'&slots\[', '&this->slots[', 0), (r'(?<![\w>.])(produce|consume)\(', 'CB_(', 0),
]
CHR = [(r'\bT x;', 'uint64_t x;', 1), (r'(?:queue->)?(?<![\w.>])full\(\)', 'CH_full(this)', 0), (r'(?:queue->)?(?<![\w.])pop\(x\)', 'CH_pop(this, &x)', 1),
       (r'SendBackoff<T>::notify_senders\([^;]*\);', 'notify_senders_(this);', 1), (r'photon::thread_yield\(\);', 'thread_yield_();', 1),
       (r'(idler|pending)\.fetch_add\((\w+), [^)]*\)', r'at_fetch_add(this, &this->\1, \2)', 1), (r'(idler|pending)\.fetch_sub\((\w+), [^)]*\)', r'at_fetch_sub(this, &this->\1, \2)', 1),
       (r'Timeout yield_timeout\(([^)]*)\);', r'struct Timeout yield_timeout; Timeout_ctor_(&yield_timeout, \1);', 1),
       (r'yield_timeout\.expired\(\)', 'Timeout_expired_(&yield_timeout)', 1), (r'yield_timeout\.timeout\(([^)]*)\)', r'Timeout_timeout_(&yield_timeout, \1)', 1),
       (r'queue_sem\.wait\(1, [^)]*\)', 'sem_wait_(this)', 1)]
CH_RM = {'count': 1, 0: dict(name='RC', frame=['this', 'x', 'yield_turn', 'yield_timeout', 'r', 'POPPED', 'POP_FAILED_SINCE', 'TOKEN_UNMIRRORED', 'N_WAIT', 'N_PEND_DEC', 'N_YIELD'],
         effects={'CH_pop': ['this', 'x', 'POPPED', 'POP_FAILED_SINCE'], 'thread_yield_': ['N_YIELD'], 'sem_wait_': ['this', 'POP_FAILED_SINCE', 'TOKEN_UNMIRRORED', 'N_WAIT'],
                  'at_fetch_sub': ['this', 'TOKEN_UNMIRRORED', 'N_PEND_DEC'], 'Timeout_timeout_': ['yield_timeout'], 'at_fetch_add': ['this', 'POP_FAILED_SINCE']}, pure=['Timeout_expired_', 'CH_full'])}
CHS = [(r'SendBackoff<T>::template push_backoff<Pause>\(.*?send_sem, send_waiters, send_pending\);', 'push_backoff_(this, x);', 1),
       (r'std::atomic_thread_fence\(std::memory_order_seq_cst\);', 'fence_();', 1),
       (r'(idler|pending)\.load\([^)]*\)', r'sd_load(this, &this->\1)', 1),
       (r'pending\.compare_exchange_weak\((\w+), ([^,]+),\s*std::memory_order_acq_rel,\s*std::memory_order_acquire\)', r'sd_cas(this, &this->pending, &\1, \2)', 1),
       (r'queue_sem\.signal\(1\);', 'sem_signal_(this, 1);', 1)]
CH_SM = {'count': 1, 0: dict(name='SD', frame=['this', 'p', 'cur_idler', 'fresh', 'IDLER_SEEN', 'PEND_SEEN', 'SAW_IDLER', 'SAW_PEND', 'N_CAS_OK', 'CAS_FROM', 'N_SIGNAL'],
         effects={'sd_load': ['this', 'IDLER_SEEN', 'PEND_SEEN', 'SAW_IDLER', 'SAW_PEND'], 'sd_cas': ['this', 'p', 'PEND_SEEN', 'N_CAS_OK', 'CAS_FROM'], 'sem_signal_': ['N_SIGNAL']}, pure=[])}
PURE = ['Base_idx', 'Base_turn', 'Q_last_turn_read', 'Q_this_turn_write', 'Q_this_turn_read', 'Base_check_full', 'Base_check_empty', 'Base_check_mask_equal']
TARGETS = [
    Target('base_ctor', Q, r'explicit LockfreeRingQueueBase\(size_t c\)\s*(?=:)', init_list=True, rules=[
        (r'this->capacity = \(c', 'this->capacity = (c', 1),
        (r'\(capacity - 1\)', '(this->capacity - 1)', 1), (r'__builtin_ctzll\(capacity\)', '__builtin_ctzll(this->capacity)', 1),
        (r'sizeof\(size_t\) - shift\)', 'sizeof(size_t) - this->shift)', 1)]),
    Target('check_mask_equal', Q, r'bool check_mask_equal\(size_t x, size_t y\) const', rules=[BF]),
    Target('check_empty', Q, r'bool check_empty\(size_t h, size_t t\) const (?=\{)', rules=[(r'(?<![\w>.])(idx|turn)\(', r'Base_\1(this, ', 0), BF_OPT]),
    Target('check_full', Q, r'bool check_full\(size_t h, size_t t\) const', rules=[(r'(?<![\w>.])check_mask_equal\(', 'Base_check_mask_equal(this, ', 1),
        (r'(?<![\w>.])(idx|turn)\(', r'Base_\1(this, ', 0), BF_OPT]),
    Target('idx', Q, r'size_t idx\(size_t x\) const (?=\{)', rules=[BF]),
    Target('turn', Q, r'size_t turn\(size_t x\) const (?=\{)', rules=[BF]),
    Target('this_turn_write', Q, r'MarkType this_turn_write\(const uint64_t x\) const', rules=[(r'Base::turn\(', 'Base_turn(this, ', 1)]),
    Target('this_turn_read', Q, r'MarkType this_turn_read\(const uint64_t x\) const', rules=[(r'Base::turn\(', 'Base_turn(this, ', 1)]),
    Target('last_turn_read', Q, r'MarkType last_turn_read\(const uint64_t x\) const', rules=[(r'Base::turn\(', 'Base_turn(this, ', 1)]),
    Target('mpmc_push', Q, r'bool push\(const T& x\) (?=\{\s*auto t = tail\.load)', index=0, count=2, rules=MP + [
        (r'slot = x;', 'SLOT_DATA_WRITE(this, slot, *x);', 1)], common=True,
        marks={'count': 1, 0: dict(name='MPP', frame=['t', 'this', 'ps', 'slot', 'mark', 'h', 'prevTail', 'CLAIMED', 'N_DATA_W'],
               effects={'mp_load': ['this'], 'mp_cas': ['this', 't', 'CLAIMED'], 'mp_store_mark': ['this', 'CLAIMED'], 'SLOT_DATA_WRITE': ['this', 'N_DATA_W']},
               pure=PURE)}),
    Target('mpmc_pop', Q, r'bool pop\(T& x\) (?=\{\s*auto h = head\.load)', index=0, count=2, rules=MP + [
        (r'x = slot;', '*x = SLOT_DATA_READ(this, slot);', 1)],
        marks={'count': 1, 0: dict(name='MPO', frame=['h', 'this', 'ps', 'slot', 'mark', 't', 'prevHead', 'CLAIMED', 'x', 'POP_READ_OK'],
               effects={'mp_load': ['this'], 'mp_cas': ['this', 'h', 'CLAIMED'], 'mp_store_mark': ['this', 'CLAIMED'], 'SLOT_DATA_READ': ['POP_READ_OK']},
               pure=PURE)}),
    # blocking send()/recv(): the position is claimed unconditionally (fetch_add), the slot is used once its mark shows this call's turn
    Target('mpmc_send', Q, r'void send\(const T& x\) (?=\{\s*static_assert[^;]*;\s*auto const t = tail\.fetch_add)', common=True, rules=SR + [
        (r'slot = x;', 'SLOT_DATA_WRITE_T(this, slot, *x);', 1)],
        marks={'count': 1, 0: dict(name='MPS', frame=['this', 'LAST_MARK'], effects={'mp_load_mark': ['this', 'LAST_MARK']}, pure=PURE + ['pause_'])}),
    Target('mpmc_recv', Q, r'T recv\(\) (?=\{\s*static_assert[^;]*;\s*auto const h = head\.fetch_add)', common=True, rules=SR + [
        (r'\bT ret = slot;', 'uint64_t ret = SLOT_DATA_READ_T(this, slot);', 1), (r'return slot;', 'return SLOT_DATA_READ_T(this, slot);', 0)],
        marks={'count': 1, 0: dict(name='MPR', frame=['this', 'LAST_MARK'], effects={'mp_load_mark': ['this', 'LAST_MARK']}, pure=PURE + ['pause_'])}),
    Target('push_batch', Q, r'size_t push_batch\(const T\* x, size_t n\)', index=0, count=2, rules=BQ_RULES,
           marks={'count': 2, 0: dict(name='PB', frame=['rh', 'wt', 'wn', 'this', 'first_idx', 'part_length', 'wh', 'W_CLAIM', 'R_CLAIM', 'CL_POS', 'CL_N', 'N_CLAIM', 'N_PUBLISH', 'N_CPY', 'CPY_DST', 'CPY_SRC', 'CPY_LEN'],
                                   effects={'bq_load': ['this'], 'bq_cas': ['this', 'wt', 'wh', 'W_CLAIM', 'R_CLAIM', 'CL_POS', 'CL_N', 'N_CLAIM', 'N_PUBLISH'], 'bq_memcpy': ['this', 'N_CPY', 'CPY_DST', 'CPY_SRC', 'CPY_LEN']}, pure=['Base_idx', 'MIN_']),
                              1: dict(name='PW', frame=['wh', 'this', 'W_CLAIM', 'R_CLAIM', 'CL_POS', 'CL_N', 'N_CLAIM', 'N_PUBLISH'],
                                   effects={'bq_cas': ['this', 'wh', 'W_CLAIM', 'R_CLAIM', 'CL_POS', 'CL_N', 'N_CLAIM', 'N_PUBLISH']}, pure=[])}),
    Target('pop_batch', Q, r'size_t pop_batch\(T\* x, size_t n\)', index=0, count=2, rules=BQ_RULES,
           marks={'count': 2, 0: dict(name='OB', frame=['rt', 'wh', 'rn', 'this', 'first_idx', 'part_length', 'rh', 'x', 'W_CLAIM', 'R_CLAIM', 'CL_POS', 'CL_N', 'N_CLAIM', 'N_PUBLISH', 'N_CPY', 'CPY_DST', 'CPY_SRC', 'CPY_LEN'],
                                   effects={'bq_load': ['this'], 'bq_cas': ['this', 'rt', 'rh', 'W_CLAIM', 'R_CLAIM', 'CL_POS', 'CL_N', 'N_CLAIM', 'N_PUBLISH'], 'bq_memcpy': ['this', 'x', 'N_CPY', 'CPY_DST', 'CPY_SRC', 'CPY_LEN']}, pure=['Base_idx', 'MIN_']),
                              1: dict(name='OW', frame=['rh', 'this', 'W_CLAIM', 'R_CLAIM', 'CL_POS', 'CL_N', 'N_CLAIM', 'N_PUBLISH'],
                                   effects={'bq_cas': ['this', 'rh', 'W_CLAIM', 'R_CLAIM', 'CL_POS', 'CL_N', 'N_CLAIM', 'N_PUBLISH']}, pure=[])}),
    Target('spsc_push', Q, r'bool push\(const T& x\) (?=\{\s*auto t = tail\.load\(std::memory_order_acquire\);\s*if \(unlikely\(Base::check_full)', rules=SPR + [
        (r'slots\[([^\]]*)\] = x;', r'SLOT_WRITE(this, \1, *x);', 1)]),
    Target('spsc_pop', Q, r'bool pop\(T& x\) (?=\{\s*auto h = head\.load\(std::memory_order_acquire\);\s*if \(unlikely\(Base::check_empty)', rules=SPR + [
        (r'(?<![\w>.])x = slots\[([^\]]*)\];', r'*x = SLOT_READ(this, \1);', 1)]),
    Target('spsc_produce', Q, r'size_t produce_push_batch\(size_t n, Producer&& produce\)', rules=SPR),
    Target('spsc_produce_fully', Q, r'size_t produce_push_batch_fully\(size_t n, Producer&& produce\)', rules=SPR),
    Target('spsc_consume', Q, r'size_t consume_pop_batch\(size_t n, Consumer&& consume\)', rules=SPR),
    Target('ch_recv', Q, r'T recv\(uint64_t max_yield_turn, uint64_t max_yield_usec\)', index=0, count=2, rules=CHR, defers=dict(rettype='uint64_t'), marks=CH_RM),
    Target('fch_recv', Q, r'T recv\(uint64_t max_yield_turn, uint64_t max_yield_usec\)', index=1, count=2, rules=CHR, defers=dict(rettype='uint64_t'), marks=CH_RM),
    Target('ch_send', Q, r'void send\(const T& x\) (?=\{\s*SendBackoff<T>::template push_backoff)', index=0, count=2, rules=CHS, marks=CH_SM),
    Target('fch_send', Q, r'void send\(const T& x\) (?=\{\s*SendBackoff<T>::template push_backoff)', index=1, count=2, rules=CHS, marks=CH_SM),
    Target('sb_push_backoff', Q, r'static void push_backoff\(const T& x, PushFn push_fn, uint64_t yield_turn, uint64_t yield_usec,\s*photon::semaphore& send_sem,\s*std::atomic<uint64_t>& send_waiters,\s*std::atomic<uint64_t>& send_pending\)',
           scoped=dict(items=[(r'DEFER\((send_waiters\.fetch_sub\([^;]*\))\);', ';', r'\1;')], rettype='void'),
           rules=[(r'push_fn\(x\)', 'CH_pop(this, &PB_X)', 1), (r'send_waiters\.fetch_add\((\w+), [^)]*\)', r'at_fetch_add(this, &this->idler, \1)', 1),
                  (r'send_waiters\.fetch_sub\((\w+), [^)]*\)', r'at_fetch_sub(this, &this->idler, \1)', 1), (r'send_pending\.fetch_sub\((\w+), [^)]*\)', r'at_fetch_sub(this, &this->pending, \1)', 1),
                  (r'Timeout yield_timeout\(([^)]*)\);', r'struct Timeout yield_timeout; Timeout_ctor_(&yield_timeout, \1);', 1),
                  (r'yield_timeout\.expired\(\)', 'Timeout_expired_(&yield_timeout)', 1), (r'yield_timeout\.timeout\(([^)]*)\)', r'Timeout_timeout_(&yield_timeout, \1)', 1),
                  (r'send_sem\.wait\(1, [^)]*\)', 'sem_wait_(this)', 1), (r'photon::thread_yield\(\);', 'thread_yield_();', 1)],
           marks={'count': 1, 0: dict(name='PBK', frame=['this', 'PB_X', 'yt', 'yield_timeout', 'r', 'POPPED', 'POP_FAILED_SINCE', 'TOKEN_UNMIRRORED', 'N_WAIT', 'N_PEND_DEC', 'N_YIELD'],
                  effects=dict(CH_RM[0]['effects'], CH_pop=['this', 'PB_X', 'POPPED', 'POP_FAILED_SINCE']), pure=['Timeout_expired_'])}),
    Target('sb_notify_senders', Q, r'static void notify_senders\(photon::semaphore& send_sem,\s*std::atomic<uint64_t>& send_waiters,\s*std::atomic<uint64_t>& send_pending\)',
           rules=[(r'std::atomic_thread_fence\(std::memory_order_seq_cst\);', 'fence_();', 1), (r'send_waiters\.load\([^)]*\)', 'sd_load(this, &this->idler)', 1),
                  (r'send_pending\.load\([^)]*\)', 'sd_load(this, &this->pending)', 1),
                  (r'send_pending\.compare_exchange_weak\((\w+), ([^,]+),\s*std::memory_order_acq_rel,\s*std::memory_order_acquire\)', r'sd_cas(this, &this->pending, &\1, \2)', 1),
                  (r'send_sem\.signal\(1\);', 'sem_signal_(this, 1);', 1)],
           marks={'count': 1, 0: dict(name='NS', frame=['this', 'sp', 'cur_waiters', 'fresh', 'IDLER_SEEN', 'PEND_SEEN', 'SAW_IDLER', 'SAW_PEND', 'N_CAS_OK', 'CAS_FROM', 'N_SIGNAL'],
                  effects=dict(CH_SM[0]['effects'], sd_cas=['this', 'sp', 'PEND_SEEN', 'N_CAS_OK', 'CAS_FROM']), pure=[])}),
]
UNITS = {'ring.c': 'ring.c.in', 'batch.c': 'batch.c.in', 'spsc.c': 'spsc.c.in', 'chan.c': 'chan.c.in'}
PROOFS = [
    Proof('arith', 'ring.c', 'lemma_ring_arith', kind='L', min_obligations=6),
    Proof('mpmc/push', 'ring.c', 'h_mpmc_push', kind='L', min_obligations=4, backend='cadical'),
    Proof('batch/push', 'batch.c', 'h_push_batch', kind='L', min_obligations=6, backend='cadical'),
    Proof('batch/pop', 'batch.c', 'h_pop_batch', kind='L', min_obligations=6, backend='cadical'),
    Proof('spsc/push', 'spsc.c', 'h_spsc_push', kind='L', min_obligations=4),
    Proof('spsc/pop', 'spsc.c', 'h_spsc_pop', kind='L', min_obligations=4),
    Proof('spsc/push_batch', 'spsc.c', 'h_spsc_produce', kind='L', min_obligations=4, backend='cadical'),
    Proof('spsc/pop_batch', 'spsc.c', 'h_spsc_consume', kind='L', min_obligations=4, backend='cadical'),
    Proof('channel/recv', 'chan.c', 'h_ch_recv', kind='L', min_obligations=5),
    Proof('channel/send', 'chan.c', 'h_ch_send', kind='L', min_obligations=5),
    Proof('flexchannel/recv', 'chan.c', 'h_ch_recv', kind='L', defines=['FLEX'], min_obligations=5),
    Proof('flexchannel/send', 'chan.c', 'h_ch_send', kind='L', defines=['FLEX'], min_obligations=5),
    Proof('channel/push_backoff', 'chan.c', 'h_push_backoff', kind='L', min_obligations=4),
    Proof('channel/notify_senders', 'chan.c', 'h_notify_senders', kind='L', min_obligations=4),
    Proof('mpmc/pop', 'ring.c', 'h_mpmc_pop', kind='L', min_obligations=4, backend='cadical'),
    Proof('mpmc/send', 'ring.c', 'h_mpmc_send', kind='L', min_obligations=4, backend='cadical'),
    Proof('mpmc/recv', 'ring.c', 'h_mpmc_recv', kind='L', min_obligations=4, backend='cadical'),
]
NATIVES = [Native('native', 'native.cpp', args_quick=[200000], args_thorough=[20000000], timeout=3000, link_photon=True)]
REPLAY = 'native'
AUX_VIOLATION = True    # no native oracle: a failing loop-rule obligation is reported (no-failing-input-found), see DESIGN §4
TRUSTED = ['cbmc 6.11.0', 'lowering rules of specs/C07/spec.py']
NOT_DECIDED = ['FIFO per producer across stalls; "nothing lost or duplicated" as a whole-history property (the per-call step contracts + the mark-protocol lemmas are what is proved)',
               'end-to-end liveness of the RingChannel notification (the step contracts of recv/send/push_backoff/notify_senders are proved; that they compose needs the fence / seq_cst ordering: a memory-model fact)',
               'send/recv wrappers (pause loops) and the SPSC push_batch/pop_batch memcpy lambdas (the piece layout they receive is proved)', 'memory ordering (sequentially consistent model)']
ASSUMPTIONS = ['rely: tail/head only grow; another thread writes a slot only between its own claim and publication']
