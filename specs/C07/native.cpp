// C07 native layer: the REAL ring queues (common/lockfree_queue.h of the working tree) driven by ONE thread against a std::deque
// model - every element pushed is popped exactly once and in order, nothing else is ever returned, the queue never holds more than
// its capacity, refusals happen exactly at full / empty - with the free-running counters started at 0 and just below 2^64 (SPSC and
// batch queues; the MPMC slot marks of the real class assume a start at 0).  Interleavings are out of reach here (kernel proofs).
#include <photon/common/lockfree_queue.h>
#include <cstdio>
#include <cstdlib>
#include <cstring>
#include <string>
#include <deque>
#include <vector>
#include <fstream>
#include <sstream>
static std::string why;
static uint64_t rs_;
static uint64_t rnd() { rs_ ^= rs_ << 13; rs_ ^= rs_ >> 7; rs_ ^= rs_ << 17; return rs_; }
#define FAIL(...) do { char m_[300]; snprintf(m_, sizeof m_, __VA_ARGS__); why = m_; return false; } while (0)
template<size_t N> struct SP : public LockfreeSPSCRingQueue<uint64_t, N> { void start(uint64_t b) { this->head.store(b); this->tail.store(b); }
    // all-or-nothing batch push (the async logger's enqueue path)
    size_t push_fully(const uint64_t* x, size_t n) { return this->produce_push_batch_fully(n, [&](uint64_t* p1, size_t n1, uint64_t* p2, size_t n2) { memcpy(p1, x, n1 * sizeof(uint64_t)); if (n2) memcpy(p2, x + n1, n2 * sizeof(uint64_t)); }); } };
template<size_t N> struct BQ : public LockfreeBatchMPMCRingQueue<uint64_t, N> { size_t push_fully(const uint64_t*, size_t) { return (size_t)-1; } void start(uint64_t b) { this->head.store(b); this->tail.store(b); this->write_head.store(b); this->read_tail.store(b); } };
template<size_t N> struct MP : public LockfreeMPMCRingQueue<uint64_t, N> { void start(uint64_t) { } size_t push_fully(const uint64_t*, size_t) { return (size_t)-1; }
    size_t push_batch(const uint64_t*, size_t) { return 0; } size_t pop_batch(uint64_t*, size_t) { return 0; } };   // no batch interface: never called (batch == false)
template<class Q> static bool drive(Q& q, size_t cap, uint64_t base, bool batch, std::string* desc, const char* name) {
    q.start(base); std::deque<uint64_t> m; uint64_t next = 1; char b[96];
    snprintf(b, sizeof b, "%s cap=%zu start=2^64-%lu:", name, cap, (unsigned long)(0 - base)); *desc = b;
    int nops = 10 + rnd() % 60;
    for (int k = 0; k < nops; k++) {
        int op = rnd() % (batch ? 5 : 2);
        if (op == 0) {
            uint64_t v = next++; bool r = q.push(v); snprintf(b, sizeof b, " push"); *desc += b;
            if (r != (m.size() < cap)) FAIL("push returned %d with %zu of %zu slots used", (int)r, m.size(), cap);
            if (r) m.push_back(v);
        } else if (op == 1) {
            uint64_t v = 0; bool r = q.pop(v); snprintf(b, sizeof b, " pop"); *desc += b;
            if (r != !m.empty()) FAIL("pop returned %d with %zu elements queued", (int)r, m.size());
            if (r) { if (v != m.front()) FAIL("pop returned %lu, the oldest element is %lu", (unsigned long)v, (unsigned long)m.front()); m.pop_front(); }
        } else if (op == 2) {
            size_t n = rnd() % (cap + 3); uint64_t x[64]; for (size_t i = 0; i < n; i++) x[i] = next + i;
            size_t r = q.push_batch(x, n); snprintf(b, sizeof b, " push_batch(%zu)", n); *desc += b;
            size_t exp = std::min(n, cap - m.size());
            if (r != exp) FAIL("push_batch(%zu) accepted %zu with %zu of %zu slots used (expected %zu)", n, r, m.size(), cap, exp);
            for (size_t i = 0; i < r; i++) m.push_back(x[i]); next += r;
        } else if (op == 4) {
            size_t n = rnd() % (cap + 3); uint64_t x[64]; for (size_t i = 0; i < n; i++) x[i] = next + i;
            size_t r = q.push_fully(x, n); if (r == (size_t)-1) continue; snprintf(b, sizeof b, " push_fully(%zu)", n); *desc += b;
            size_t exp = n <= cap - m.size() ? n : 0;
            if (r != exp) FAIL("produce_push_batch_fully(%zu) accepted %zu with %zu of %zu slots used (all or nothing: expected %zu)", n, r, m.size(), cap, exp);
            for (size_t i = 0; i < r; i++) m.push_back(x[i]); next += r;
        } else {
            size_t n = rnd() % (cap + 3); uint64_t x[64]; memset(x, 0xEE, sizeof x);
            size_t r = q.pop_batch(x, n); snprintf(b, sizeof b, " pop_batch(%zu)", n); *desc += b;
            size_t exp = std::min(n, m.size());
            if (r != exp) FAIL("pop_batch(%zu) returned %zu with %zu elements queued", n, r, m.size());
            for (size_t i = 0; i < r; i++) { if (x[i] != m.front()) FAIL("pop_batch element %zu is %lu, expected %lu", i, (unsigned long)x[i], (unsigned long)m.front()); m.pop_front(); }
        }
        if (q.empty() != m.empty()) FAIL("empty() is %d with %zu elements queued", (int)q.empty(), m.size());
        if (q.full() != (m.size() == cap)) FAIL("full() is %d with %zu of %zu slots used", (int)q.full(), m.size(), cap);
        if (q.read_available() != m.size()) FAIL("read_available() is %zu with %zu elements queued", q.read_available(), m.size());
    }
    return true;
}
static bool one(uint64_t seed, std::string* desc) {
    rs_ = seed * 0x9E3779B97F4A7C15ull + 11; if (!rs_) rs_ = 1;
    int kind = rnd() % 3; int capsel = rnd() % 3;
    uint64_t base = (rnd() % 2) ? 0 : (uint64_t)0 - (rnd() % 40);
    if (kind == 0) { if (capsel == 0) { SP<2> q; return drive(q, 2, base, true, desc, "spsc"); } if (capsel == 1) { SP<4> q; return drive(q, 4, base, true, desc, "spsc"); } SP<8> q; return drive(q, 8, base, true, desc, "spsc"); }
    if (kind == 1) { if (capsel == 0) { BQ<2> q; return drive(q, 2, base, true, desc, "batch"); } if (capsel == 1) { BQ<4> q; return drive(q, 4, base, true, desc, "batch"); } BQ<8> q; return drive(q, 8, base, true, desc, "batch"); }
    if (capsel == 0) { MP<2> q; return drive(q, 2, 0, false, desc, "mpmc"); } if (capsel == 1) { MP<4> q; return drive(q, 4, 0, false, desc, "mpmc"); } MP<8> q; return drive(q, 8, 0, false, desc, "mpmc");
}
int main(int argc, char** argv) {
    uint64_t seed0 = getenv("VERIF_SEED") ? strtoull(getenv("VERIF_SEED"), 0, 10) : 1;
    if (argc >= 3 && !strcmp(argv[1], "--replay")) {
        std::ifstream f(argv[2]); std::stringstream ss; ss << f.rdbuf(); std::string j = ss.str(), d; auto p_ = j.find("\"seed\": ");
        if (p_ == std::string::npos) { printf("NOT-REPRODUCED no concrete input for this obligation\n"); return 0; }
        bool ok = one(strtoull(j.c_str() + p_ + 8, 0, 10), &d); printf("%s %s %s\n", ok ? "NOT-REPRODUCED" : "REPRODUCED", d.c_str(), why.c_str()); return 0;
    }
    uint64_t N = argc > 1 ? strtoull(argv[1], 0, 10) : 200000;
    for (uint64_t s = 0; s < N; s++) { std::string d; uint64_t sd = seed0 * 1000003 + s; if (!one(sd, &d)) { printf("CEX queue {\"kind\": \"queue\", \"seed\": %lu, \"case\": \"%s\", \"why\": \"%s\"}\n", (unsigned long)sd, d.c_str(), why.c_str()); return 3; } }
    printf("OK %lu (single-thread operation sequences on the real SPSC / batch-MPMC / MPMC ring queues against a deque model; counters started at 0 and just below 2^64)\n", (unsigned long)N);
    return 0;
}
